// TRUSTED PRELUDE — unit `program`: dispatched analyses as uninterpreted results (unit `analysis` verifies them),
// A-CLONE for CharacterClass / Vec<char>.
pub uninterp spec fn op_min_length(op: Operation) -> usize;
impl Operation {
    #[verifier::external_body]
    pub fn get_match_length(&self) -> (r: Option<usize>)
        ensures r == op_match_length(*self),
    { unimplemented!() }
    #[verifier::external_body]
    pub fn get_minimum_match_length(&self) -> (r: usize)
        ensures r == op_min_length(*self),
    { unimplemented!() }
}
impl CharacterClass {
    #[verifier::external_body]
    pub fn clone(&self) -> (r: CharacterClass)
        ensures r == *self,
    { unimplemented!() }
}
