// TRUSTED PRELUDE — R15: `let mut chars = s.chars();` consumed by `for c in chars.by_ref()` and then `for c in chars`
// is replaced by this cursor over the string's code points (std: `Chars` yields the chars of the string in order, and
// `by_ref()` lets a second loop continue where the first one stopped). The cursor itself is verified Verus code;
// only `str_to_chars` (identity on the code point sequence) is assumed.
pub struct CharsCursor {
    pub v: Vec<char>,
    pub i: usize,
}
impl CharsCursor {
    pub open spec fn wf(&self) -> bool { self.i <= self.v@.len() }
    pub fn new(s: &str) -> (r: CharsCursor)
        ensures r.v@ == s@, r.i == 0, r.wf(),
    { CharsCursor { v: str_to_chars(s), i: 0 } }
    pub fn next(&mut self) -> (r: Option<char>)
        requires old(self).wf(),
        ensures
            final(self).wf(), final(self).v == old(self).v,
            old(self).i < old(self).v@.len() ==> r == Some(old(self).v@[old(self).i as int]) && final(self).i == old(self).i + 1,
            old(self).i >= old(self).v@.len() ==> r is None && final(self).i == old(self).i,
    {
        if self.i < self.v.len() { let c = self.v[self.i]; self.i = self.i + 1; Some(c) } else { None }
    }
}
