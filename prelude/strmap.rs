// TRUSTED PRELUDE — A-HASH for string keys: `HashMap<String, V>` as a finite map from the key's characters.
#[verifier::external_body]
#[verifier::reject_recursive_types(V)]
pub struct StrMap<V> { _v: core::marker::PhantomData<V> }
impl<V> StrMap<V> {
    pub uninterp spec fn view(&self) -> Map<Seq<char>, V>;
    #[verifier::external_body]
    pub fn new() -> (r: StrMap<V>) ensures r@ == Map::<Seq<char>, V>::empty(), { unimplemented!() }
    #[verifier::external_body]
    pub fn insert(&mut self, k: String, v: V) ensures final(self)@ == old(self)@.insert(k@, v), { unimplemented!() }
    #[verifier::external_body]
    pub fn get(&self, k: &str) -> (r: Option<&V>)
        ensures self@.contains_key(k@) ==> r == Some(&self@[k@]), !self@.contains_key(k@) ==> r is None,
    { unimplemented!() }
}
// R6g: `s.replace([' ', '_'], "")`: s without its spaces and underscores
pub open spec fn is_sep(c: char) -> bool { c == ' ' || c == '_' }
pub open spec fn strip_seps(s: Seq<char>) -> Seq<char> { s.filter(|c: char| !is_sep(c)) }
#[verifier::external_body]
pub fn str_strip_seps(s: &str) -> (r: String) ensures r@ == strip_seps(s@), { unimplemented!() }

// the generated table block::ALL_BLOCKS (block.rs, ~330 entries) is left abstract: that it equals Blocks.txt +
// the XSD compatibility names is data conformance (not decided by this family)
pub uninterp spec fn all_blocks_spec() -> Seq<Block>;
#[verifier::external_body]
pub fn all_blocks() -> (r: &'static [Block]) ensures r@ == all_blocks_spec(), { unimplemented!() }
