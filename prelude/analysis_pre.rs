// TRUSTED PRELUDE — unit `analysis`: A-DISPATCH for matches_empty_string. `zls_of(op)` is the answer the operation gives
// (enum_dispatch forwards to the variant's method, see prelude/analysis_stubs.rs); it is uninterpreted, so the rules
// proved about the composite operators hold for whatever the children answer.
pub uninterp spec fn zls_of(op: Operation) -> u32;
