// TRUSTED PRELUDE — R1b: `Box::new(S::new(..))` for an iterator struct S under contract becomes
// `AbsIter::wrap_S(..)`: boxing does not change the sequence an iterator yields. The *content* of
// `remaining()` is not trusted: it is the function S::next is verified to pop.
impl AbsIter {
    #[verifier::external_body]
    pub fn wrap_int_step(it: IntStepIterator) -> (r: AbsIter)
        ensures r@ == it.remaining(),
    { unimplemented!() }
}
