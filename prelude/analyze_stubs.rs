// TRUSTED PRELUDE — `AnalyzeIter::process_matching_substring` summarised by the
// part of its contract that `AnalyzeIter::next` needs (C03/C04: "the concatenation
// of all String leaves of a Match equals the matched substring"). The function
// itself (HashMap entry API, closures) is outside Verus' reach; see DESIGN.md.
impl<'a> AnalyzeIter<'a> {
    #[verifier::external_body]
    pub fn process_matching_substring(&self, current: &[char]) -> (r: Vec<MatchEntry>)
        ensures leaves_text(r@) == current@,
    { unimplemented!() }
}
