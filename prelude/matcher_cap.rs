// TRUSTED PRELUDE — the matcher as seen by unit `capture`: the capture state behind the RefCell is opaque (A-REFCELL),
// but every function that WRITES it carries the precondition `producing_result()`. The only function of the unit that
// may assume it is `CaptureGroupIterator::next` (a result of the group's body has just been obtained); `Capture::matches_iter`
// — which only creates the iterator — may not, so a write to the capture state while no result has been produced
// (an attempt that may still fail would leave it modified) is a failed obligation there.
pub uninterp spec fn producing_result() -> bool;
pub struct ReMatcher<'a> {
    pub program: &'a ReProgram,
    pub search: Vec<char>,
    pub case_mapper: CaseMapper,
}
impl<'a> ReMatcher<'a> {
    #[verifier::external_body]
    pub fn paren_count(&self) -> (r: usize) { unimplemented!() }
    #[verifier::external_body]
    pub fn set_paren_count(&self, n: usize) requires producing_result(), { unimplemented!() }
    #[verifier::external_body]
    pub fn set_paren_start(&self, group_nr: usize, position: usize) requires producing_result(), { unimplemented!() }
    #[verifier::external_body]
    pub fn set_paren_end(&self, group_nr: usize, position: usize) requires producing_result(), { unimplemented!() }
    #[verifier::external_body]
    pub fn set_start_backref(&self, group_nr: usize, v: Option<usize>) requires producing_result(), { unimplemented!() }
    #[verifier::external_body]
    pub fn set_end_backref(&self, group_nr: usize, v: Option<usize>) requires producing_result(), { unimplemented!() }
}
