// TRUSTED PRELUDE — unit `opt`.
// A-DISPATCH: results of dispatched analyses / optimisation of an operation as uninterpreted functions.
pub uninterp spec fn op_optimized(op: Operation, flags: ReFlags) -> Operation;
pub uninterp spec fn op_first_set(op: Operation, case_blind: bool, c: char) -> bool;
pub uninterp spec fn op_matches_empty(op: Operation) -> u32;
pub uninterp spec fn op_match_length(op: Operation) -> Option<usize>;

impl Operation {
    #[verifier::external_body]
    pub fn optimize(self, flags: &ReFlags) -> (r: Operation)
        ensures r == op_optimized(self, *flags),
    { unimplemented!() }

    #[verifier::external_body]
    pub fn get_initial_character_class(&self, case_blind: bool) -> (r: CharacterClass)
        ensures forall|c: char| #![trigger r.0.has(c)] #![trigger op_first_set(*self, case_blind, c)] r.0.has(c) == op_first_set(*self, case_blind, c),
    { unimplemented!() }

    // A-CLONE: #[derive(Clone)] is structural identity
    #[verifier::external_body]
    pub fn clone(&self) -> (r: Operation)
        ensures r == *self,
    { unimplemented!() }
}

// R4b: `op.repeat_operation()` returns `Option<&dyn RepeatOperation>`; the trait object is replaced by this
// record of the four accessor results. It mirrors `Operation::repeat_operation` (operation.rs) and the four
// `impl RepeatOperation for ..` blocks (op_repeat.rs, op_greedy_fixed.rs, op_reluctant_fixed.rs,
// op_unambiguous_repeat.rs): child = the boxed operation, min/max = the fields, greedy = the field for Repeat,
// true for GreedyFixed and UnambiguousRepeat, false for ReluctantFixed.
pub struct RepeatView { pub child_: Operation, pub min_: usize, pub max_: usize, pub greedy_: bool }

pub open spec fn rep_view(op: Operation) -> Option<RepeatView> {
    match op {
        Operation::Repeat(r) => Some(RepeatView { child_: *r.operation, min_: r.min, max_: r.max, greedy_: r.greedy }),
        Operation::GreedyFixed(r) => Some(RepeatView { child_: *r.operation, min_: r.min, max_: r.max, greedy_: true }),
        Operation::ReluctantFixed(r) => Some(RepeatView { child_: *r.operation, min_: r.min, max_: r.max, greedy_: false }),
        Operation::UnambiguousRepeat(r) => Some(RepeatView { child_: *r.operation, min_: r.min, max_: r.max, greedy_: true }),
        _ => None,
    }
}

impl Operation {
    #[verifier::external_body]
    pub fn repeat_view(&self) -> (r: Option<RepeatView>)
        ensures r == rep_view(*self),
    { unimplemented!() }
}
impl RepeatView {
    #[verifier::external_body]
    pub fn child(&self) -> (r: Operation) ensures r == self.child_, { unimplemented!() }
    #[verifier::external_body]
    pub fn min(&self) -> (r: usize) ensures r == self.min_, { unimplemented!() }
    #[verifier::external_body]
    pub fn max(&self) -> (r: usize) ensures r == self.max_, { unimplemented!() }
    #[verifier::external_body]
    pub fn greedy(&self) -> (r: bool) ensures r == self.greedy_, { unimplemented!() }
}

// A-ICU: `iter_chars()` enumerates exactly the scalar values of the set, each once, as a finite sequence
#[verifier::external_body]
pub struct CharIter { _p: core::marker::PhantomData<u8> }
impl CharIter {
    pub uninterp spec fn view(&self) -> Seq<char>;
    #[verifier::external_body]
    pub fn next(&mut self) -> (r: Option<char>)
        ensures
            old(self)@.len() == 0 ==> r is None && final(self)@ == old(self)@,
            old(self)@.len() > 0 ==> r == Some(old(self)@[0]) && final(self)@ == old(self)@.skip(1),
    { unimplemented!() }
}
impl<'a> CodePointInversionList<'a> {
    #[verifier::external_body]
    pub fn iter_chars(&self) -> (r: CharIter)
        ensures forall|c: char| self.has(c) <==> #[trigger] r@.contains(c),
    { unimplemented!() }
}

// R13c: `V.into_iter().map(|x| x.optimize(flags)).collect()` on a Vec<Operation>: element-wise, order kept
#[verifier::external_body]
pub fn map_optimize(v: Vec<Operation>, flags: &ReFlags) -> (r: Vec<Operation>)
    ensures r@.len() == v@.len(), forall|i: int| 0 <= i < v@.len() ==> #[trigger] r@[i] == op_optimized(v@[i], *flags),
{ unimplemented!() }
