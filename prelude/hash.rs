// TRUSTED PRELUDE — A-HASH: ahash `HashMap` as an opaque finite map.
#[verifier::external_body]
#[verifier::reject_recursive_types(K)]
#[verifier::reject_recursive_types(V)]
pub struct HashMap<K, V> { _k: core::marker::PhantomData<K>, _v: core::marker::PhantomData<V> }
