// TRUSTED PRELUDE — A-HASH: ahash `HashMap` as an opaque finite map.
#[verifier::external_body]
#[verifier::reject_recursive_types(K)]
#[verifier::reject_recursive_types(V)]
pub struct HashMap<K, V> { _k: core::marker::PhantomData<K>, _v: core::marker::PhantomData<V> }
impl<K, V> HashMap<K, V> {
    pub uninterp spec fn view(&self) -> Map<K, V>;
    #[verifier::external_body]
    pub fn new() -> (r: HashMap<K, V>) ensures r@ == Map::<K, V>::empty(), { unimplemented!() }
    // std: insert overwrites; the previous value is returned (no caller in the units looks at it)
    #[verifier::external_body]
    pub fn insert(&mut self, k: K, v: V) -> (r: Option<V>) ensures final(self)@ == old(self)@.insert(k, v), { unimplemented!() }
}
