// TRUSTED PRELUDE — further dispatched analyses with uninterpreted results (unit `opt`).
impl Operation {
    #[verifier::external_body]
    pub fn contains_capturing_expressions(&self) -> (r: bool) { unimplemented!() }
    #[verifier::external_body]
    pub fn matches_empty_string(&self) -> (r: u32) ensures r == op_matches_empty(*self), { unimplemented!() }
    #[verifier::external_body]
    pub fn get_match_length(&self) -> (r: Option<usize>) ensures r == op_match_length(*self), { unimplemented!() }
    #[verifier::external_body]
    pub fn get_minimum_match_length(&self) -> (r: usize) { unimplemented!() }

}
