// TRUSTED PRELUDE — callees of the parser that are summarised by contracts.

// R6 (`bracket`): `number.parse::<usize>().map_err(|_| Error::syntax(..))` on a non-empty string of ASCII digits:
// Ok(n) iff the decimal value fits in usize (std: `usize::from_str` fails only on overflow for such input).
pub open spec fn digits_value(s: Seq<char>) -> nat
    decreases s.len()
{
    if s.len() == 0 { 0 } else { digits_value(s.drop_last()) * 10 + ((s.last() as int - '0' as int) as nat) }
}
pub open spec fn all_digits(s: Seq<char>) -> bool {
    forall|k: int| 0 <= k < s.len() ==> '0' <= #[trigger] s[k] && s[k] <= '9'
}
#[verifier::external_body]
pub fn parse_usize_digits(number: &String) -> (r: Result<usize, Error>)
    requires number@.len() > 0, all_digits(number@),
    ensures
        digits_value(number@) <= usize::MAX ==> r == Ok::<usize, Error>(digits_value(number@) as usize),
        digits_value(number@) > usize::MAX ==> r is Err && r->Err_0 is Syntax,
{ unimplemented!() }

// category.rs (verified in unit `category`): here only "builder or Syntax error"
pub uninterp spec fn name_start_set(c: char) -> bool;
pub uninterp spec fn name_char_set(c: char) -> bool;
pub uninterp spec fn decimal_set(c: char) -> bool;
pub uninterp spec fn word_set(c: char) -> bool;
pub uninterp spec fn category_set(name: Seq<char>, c: char) -> bool;
pub uninterp spec fn category_known(name: Seq<char>) -> bool;
pub uninterp spec fn block_set(name: Seq<char>, c: char) -> bool;
pub uninterp spec fn block_known(name: Seq<char>) -> bool;

pub mod category {
    use vstd::prelude::*;
    use super::*;
    #[verifier::external_body]
    pub fn name_start_char() -> (r: CodePointInversionListBuilder)
        ensures forall|c: char| #[trigger] r.has(c) == name_start_set(c),
    { unimplemented!() }
    #[verifier::external_body]
    pub fn name_char() -> (r: CodePointInversionListBuilder)
        ensures forall|c: char| #[trigger] r.has(c) == name_char_set(c),
    { unimplemented!() }
    #[verifier::external_body]
    pub fn decimal_number() -> (r: CodePointInversionListBuilder)
        ensures forall|c: char| #[trigger] r.has(c) == decimal_set(c),
    { unimplemented!() }
    #[verifier::external_body]
    pub fn word_char() -> (r: CodePointInversionListBuilder)
        ensures forall|c: char| #[trigger] r.has(c) == word_set(c),
    { unimplemented!() }
    #[verifier::external_body]
    pub fn category_group(s: &String) -> (r: Result<CodePointInversionListBuilder, Error>)
        ensures
            category_known(s@) ==> r is Ok && forall|c: char| #[trigger] r->Ok_0.has(c) == category_set(s@, c),
            !category_known(s@) ==> r is Err && r->Err_0 is Syntax,
    { unimplemented!() }
    #[verifier::external_body]
    pub fn block(s: &String) -> (r: Result<CodePointInversionListBuilder, Error>)
        ensures
            block_known(s@) ==> r is Ok && forall|c: char| #[trigger] r->Ok_0.has(c) == block_set(s@, c),
            !block_known(s@) ==> r is Err && r->Err_0 is Syntax,
    { unimplemented!() }
}

// A-DISPATCH: the static analyses of an operation (unit `analysis` relates them to the operator semantics)
pub uninterp spec fn op_matches_empty(op: Operation) -> u32;
pub uninterp spec fn op_match_length(op: Operation) -> Option<usize>;
impl Operation {
    #[verifier::external_body]
    pub fn matches_empty_string(&self) -> (r: u32)
        ensures r == op_matches_empty(*self),
    { unimplemented!() }
    #[verifier::external_body]
    pub fn get_match_length(&self) -> (r: Option<usize>)
        ensures r == op_match_length(*self),
    { unimplemented!() }
}

// R6 (`escape`): `self.pattern.iter().skip(from).position(|c| *c == '}')` = offset of the first '}' at or after `from`
#[verifier::external_body]
pub fn position_of_close_brace(pattern: &Vec<char>, from: usize) -> (r: Option<usize>)
    ensures
        r is Some ==> from + r->0 < pattern@.len() && pattern@[from + r->0] == '}'
            && forall|k: int| from <= k < from + r->0 ==> #[trigger] pattern@[k] != '}',
        r is None ==> forall|k: int| from <= k < pattern@.len() ==> #[trigger] pattern@[k] != '}',
{ unimplemented!() }

pub assume_specification[ char::to_digit ](c: char, radix: u32) -> (r: Option<u32>)
    ensures
        radix == 10 ==> (('0' <= c && c <= '9') ==> r == Some((c as u32 - '0' as u32) as u32)),
        radix == 10 ==> (!('0' <= c && c <= '9') ==> r is None);

// R6d (`escape`): `block.starts_with(&['I', 's'])` on a char slice (std semantics)
#[verifier::external_body]
pub fn slice_starts_with_is(block: &[char]) -> (r: bool)
    ensures r == (block@.len() >= 2 && block@[0] == 'I' && block@[1] == 's'),
{ unimplemented!() }

// R9: `flags.to_vec()` on a `&[u32]`
#[verifier::external_body]
pub fn slice_u32_to_vec(s: &[u32]) -> (r: Vec<u32>)
    ensures r@ == s@,
{ unimplemented!() }

// R6e (`parse_character_class`): `for c in start..=end { cm.add_case_closure_to(c, &mut builder); }`
// (iteration over a RangeInclusive<char> has no vstd specification): adds the case closure of every
// character of the range.
#[verifier::external_body]
pub fn add_case_closure_range(cm: &CaseMapCloser, start: char, end: char, builder: &mut CodePointInversionListBuilder)
    ensures forall|x: char| #[trigger] final(builder).has(x) == (old(builder).has(x) || exists|c: char| start <= c && c <= end && closure(c, x)),
{ unimplemented!() }
