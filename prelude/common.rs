// TRUSTED PRELUDE (hand-written). Everything here is an assumption and is
// listed in every evidence file under trusted_base.
//
// A-ITER: a boxed `dyn Iterator<Item = usize>` of the engine is abstracted by
// `AbsIter`, whose ghost view is the finite sequence of items still to be
// yielded. `once` / `empty` have exactly the std semantics.
#[verifier::external_body]
#[verifier::accept_recursive_types]
pub struct AbsIter { _p: core::marker::PhantomData<usize> }

impl AbsIter {
    pub uninterp spec fn view(&self) -> Seq<usize>;

    #[verifier::external_body]
    pub fn once(x: usize) -> (r: AbsIter)
        ensures r@ == seq![x],
    { unimplemented!() }

    #[verifier::external_body]
    pub fn empty() -> (r: AbsIter)
        ensures r@ == Seq::<usize>::empty(),
    { unimplemented!() }

    #[verifier::external_body]
    pub fn next(&mut self) -> (r: Option<usize>)
        ensures
            old(self)@.len() == 0 ==> r is None && final(self)@ == old(self)@,
            old(self)@.len() > 0 ==> r == Some(old(self)@[0]) && final(self)@ == old(self)@.skip(1),
    { unimplemented!() }
}

// R1b: `Box::new(E)` where E is an iterator struct under contract (or an already boxed iterator) becomes
// `AbsIter::wrap(E)`: boxing does not change the sequence an iterator yields. What that sequence is — `remaining()` —
// is NOT trusted: it is the function that the struct's `next` is verified to pop (units fixedrep, varrep, choice, ...).
// `inv()` is the representation invariant under which the struct's `next` is verified (its precondition, re-established
// as its postcondition); boxing requires it, so no iterator is handed out in a state its `next` was not verified for.
pub trait IterView {
    spec fn remaining(&self) -> Seq<usize>;
    spec fn inv(&self) -> bool;
}
impl IterView for AbsIter {
    open spec fn remaining(&self) -> Seq<usize> { self@ }
    open spec fn inv(&self) -> bool { true }
}
impl AbsIter {
    #[verifier::external_body]
    pub fn wrap<T: IterView>(it: T) -> (r: AbsIter)
        requires it.inv(),
        ensures r@ == it.remaining(),
    { unimplemented!() }
}

// R3: error *messages* are in no property; the variant is kept.
#[verifier::external_body]
pub fn verif_msg() -> (r: String) { unimplemented!() }

// `enum Error` itself is extracted from re_compiler.rs by each unit (`type re_compiler.rs Error`).
impl Error {
    // real: `Error::Syntax(s.into())`
    #[verifier::external_body]
    pub fn syntax(s: String) -> (r: Error)
        ensures r is Syntax,
    { unimplemented!() }
}

// A-STD: std functions with exact, documented semantics that the extracted code does not use today; they are specified
// so that a rewording of the code in terms of them stays within reach of the verifier (decided, not "unsupported").
pub assume_specification<T>[ core::mem::replace ](dest: &mut T, src: T) -> (r: T)
    ensures *final(dest) == src, r == *old(dest);
pub open spec fn ascii_lower(c: char) -> char { if 'A' <= c && c <= 'Z' { ((c as u8) + 32) as char } else { c } }
pub open spec fn ascii_upper(c: char) -> char { if 'a' <= c && c <= 'z' { ((c as u8) - 32) as char } else { c } }
pub assume_specification[ char::is_ascii ](c: &char) -> (r: bool)
    ensures r == ((*c as u32) < 128);
pub assume_specification[ char::to_ascii_lowercase ](c: &char) -> (r: char)
    ensures r == ascii_lower(*c);
pub assume_specification[ char::to_ascii_uppercase ](c: &char) -> (r: char)
    ensures r == ascii_upper(*c);
pub assume_specification[ char::eq_ignore_ascii_case ](a: &char, b: &char) -> (r: bool)
    ensures r == (ascii_lower(*a) == ascii_lower(*b));
