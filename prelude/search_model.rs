// TRUSTED PRELUDE — the matcher as seen by the search loop (`ReMatcher::matches`, `check_preconditions`).
//
// A-ENGINE (pure form): `op.matches_iter(m, p)` yields the finite sequence `iter_pure(op, flags, search, p)`,
// a function of the operation, the flags and the haystack only (programs without back-references).
// R2 (A-REFCELL): `match_at` is taken with `&mut self`; what it records in the capture state is visible
// through the uninterpreted snapshot `cur_span()`.
#[verifier::external_body]
pub struct Operation { _p: core::marker::PhantomData<u8> }

pub uninterp spec fn iter_pure(op: &Operation, flags: ReFlags, search: Seq<char>, p: int) -> Seq<usize>;

#[verifier::external_body]
pub struct MatcherState { _p: core::marker::PhantomData<u8> }

pub struct ReMatcher<'a> {
    pub program: &'a ReProgram,
    pub search: Vec<char>,
    pub case_mapper: CaseMapper,
    pub state: MatcherState,
}

impl Operation {
    #[verifier::external_body]
    pub fn matches_iter<'a>(&'a self, matcher: &'a ReMatcher<'a>, position: usize) -> (r: AbsIter)
        // every operator is started inside the input (several of them compute `search.len() - position`) and yields
        // positions inside the input (A-ENGINE)
        requires position <= matcher.search@.len(),
        ensures r@ == iter_pure(self, matcher.program.flags, matcher.search@, position as int),
            forall|k: int| 0 <= k < r@.len() ==> #[trigger] r@[k] <= matcher.search@.len(),
    { unimplemented!() }
}

// does the whole program match starting at j, and where does the preferred match end
pub open spec fn m_at(prog: &ReProgram, search: Seq<char>, j: int) -> bool {
    iter_pure(&prog.operation, prog.flags, search, j).len() > 0
}
pub open spec fn m_end(prog: &ReProgram, search: Seq<char>, j: int) -> int {
    iter_pure(&prog.operation, prog.flags, search, j)[0] as int
}

impl<'a> ReMatcher<'a> {
    // (start, end) of group 0 as recorded by the last successful match_at
    pub uninterp spec fn cur_span(&self) -> Option<(int, int)>;

    // real: `self.state.borrow_mut().capture_state = CaptureState::new();`
    #[verifier::external_body]
    pub fn reset_capture_state(&mut self)
        ensures final(self).program == old(self).program, final(self).search == old(self).search,
    { unimplemented!() }

    // contract of match_at (real text verified in unit `matchat`): first item of the top-level iterator
    #[verifier::external_body]
    pub fn match_at(&mut self, i: usize, anchored: bool) -> (r: bool)
        requires i <= old(self).search@.len(),
        ensures
            final(self).program == old(self).program, final(self).search == old(self).search,
            !anchored ==> r == m_at(old(self).program, old(self).search@, i as int),
            !anchored && r ==> final(self).cur_span() == Some((i as int, m_end(old(self).program, old(self).search@, i as int))),
    { unimplemented!() }
}

// R6 (one statement of `matches`): `.iter().enumerate().skip(nl).find(|(_, c)| **c == '\n').map(|(i, _)| i).unwrap_or(-1) + 1`
// = 1 + index of the first LF at or after nl, or 0 if there is none (std semantics of the adapter chain)
pub open spec fn no_lf_between(s: Seq<char>, a: int, b: int) -> bool {
    forall|k: int| a <= k < b ==> #[trigger] s[k] != '\n'
}
#[verifier::external_body]
pub fn next_newline_plus1(search: &Vec<char>, nl: isize) -> (r: isize)
    requires 0 <= nl,
    ensures
        r == 0 || (nl < r <= search@.len() && search@[r - 1] == '\n' && no_lf_between(search@, nl as int, r - 1)),
        r == 0 ==> no_lf_between(search@, nl as int, search@.len() as int),
{ unimplemented!() }

// R6c: `x.try_into().unwrap()` from usize to isize (no vstd specification for this pair):
// std semantics: panics unless x <= isize::MAX (hence the precondition), otherwise the same number.
#[verifier::external_body]
pub fn usize_to_isize(x: usize) -> (r: isize)
    requires x <= isize::MAX,
    ensures r == x,
{ unimplemented!() }
