// TRUSTED PRELUDE — `block_lookup()` is `BLOCK_LOOKUP.get_or_init(BlockLookup::new)` on a `static OnceLock`: it hands out
// a value produced by `BlockLookup::new`, whose postcondition (verified in unit `category`) is `lookup_table_ok`.
#[verifier::external_body]
pub fn block_lookup() -> (r: &'static BlockLookup)
    ensures lookup_table_ok(r),
{ unimplemented!() }
