// TRUSTED PRELUDE — the matcher as seen by the three scan loops
// (`ReMatcher::replace`, `TokenIter::next`, `AnalyzeIter::next`).
//
// A-ORACLE: `ReMatcher::matches(i)` is summarised by its contract: it returns
// whether `oracle(program, search, i)` is `Some`, and in that case records
// exactly that match (span of group 0 and of the other groups) in the capture
// state. `oracle` is uninterpreted: *which* match is found is the business of
// unit `search` (C01/C02); the scan loops must be correct for every oracle.
// That the result depends only on (program, search, i) — not on earlier calls —
// is assumed here (it is property C18, which this family cannot decide).
pub ghost struct GSpan { pub s: int, pub e: int }

pub ghost struct MatchSpan {
    pub start: int,
    pub end: int,
    // groups[0] is the whole match; None = group did not participate
    pub groups: Seq<Option<GSpan>>,
}

pub uninterp spec fn oracle(program: &ReProgram, search: Seq<char>, i: int) -> Option<MatchSpan>;

pub open spec fn span_wf(m: MatchSpan, i: int, len: int) -> bool {
    &&& i <= m.start <= m.end <= len
    &&& m.groups.len() >= 1
    &&& m.groups[0] == Some(GSpan { s: m.start, e: m.end })
    &&& forall|g: int| 0 <= g < m.groups.len() && (#[trigger] m.groups[g]) is Some
            ==> 0 <= m.groups[g]->0.s <= m.groups[g]->0.e <= len
}

pub struct ReProgram {
    pub flags: ReFlags,
    pub max_parens: Option<usize>,
    pub pattern: Vec<char>,
}

#[verifier::external_body]
pub struct MatcherState { _p: core::marker::PhantomData<u8> }

pub struct ReMatcher<'a> {
    pub program: &'a ReProgram,
    pub search: Vec<char>,
    pub state: MatcherState,
}

impl<'a> ReMatcher<'a> {
    // the match currently recorded in the capture state (None: last search failed / no search yet)
    pub uninterp spec fn cur(&self) -> Option<MatchSpan>;

    #[verifier::external_body]
    pub fn matches(&mut self, i: usize) -> (r: bool)
        requires
            i <= old(self).search@.len(),   // real code: `self.search.len() - i`
        ensures
            final(self).program == old(self).program,
            final(self).search == old(self).search,
            final(self).cur() == oracle(old(self).program, old(self).search@, i as int),
            r == final(self).cur() is Some,
            r ==> span_wf(final(self).cur()->0, i as int, old(self).search@.len() as int),
    { unimplemented!() }

    #[verifier::external_body]
    pub fn get_paren_start(&self, group_nr: usize) -> (r: Option<usize>)
        ensures
            self.cur() is Some && group_nr == 0 ==> r == Some(self.cur()->0.start as usize),
    { unimplemented!() }

    #[verifier::external_body]
    pub fn get_paren_end(&self, group_nr: usize) -> (r: Option<usize>)
        ensures
            self.cur() is Some && group_nr == 0 ==> r == Some(self.cur()->0.end as usize),
    { unimplemented!() }

    // real: Some(&search[start..end]) iff group_nr < paren_count and both ends are set (unit `state`)
    #[verifier::external_body]
    pub fn get_paren(&self, group_nr: usize) -> (r: Option<&[char]>)
        ensures
            self.cur() is Some ==> {
                let m = self.cur()->0;
                &&& r is Some <==> (group_nr < m.groups.len() && m.groups[group_nr as int] is Some)
                &&& r is Some ==> r->0@ == self.search@.subrange(m.groups[group_nr as int]->0.s, m.groups[group_nr as int]->0.e)
            },
    { unimplemented!() }
}

pub open spec fn group_text(search: Seq<char>, m: MatchSpan, n: int) -> Seq<char> {
    if 0 <= n < m.groups.len() && m.groups[n] is Some {
        search.subrange(m.groups[n]->0.s, m.groups[n]->0.e)
    } else {
        Seq::<char>::empty()
    }
}

// every span the oracle can return on this input is non-empty (C04/C16: "a regex that cannot match the empty string")
pub open spec fn oracle_nonempty(program: &ReProgram, search: Seq<char>) -> bool {
    forall|i: int| 0 <= i <= search.len() && (#[trigger] oracle(program, search, i)) is Some
        ==> oracle(program, search, i)->0.start < oracle(program, search, i)->0.end
}

impl<'a> ReMatcher<'a> {
    // real: `search.chars().collect()` into `search`, fresh `State` (R7: identity on the code point sequence)
    #[verifier::external_body]
    pub fn new(program: &'a ReProgram, search: &str) -> (r: ReMatcher<'a>)
        ensures r.program == program, r.search@ == search@, r.cur() is None,
    { unimplemented!() }
}
