// TRUSTED PRELUDE — pieces of op_repeat.rs outside the reach of Verus here.
// `History::is_duplicate_zero_length_match` (HashMap keyed by the address of the Repeat node) and the
// greedy variable-length iterator's backtracking stack are summarised without a functional contract:
// their *results* are unconstrained, so everything proved around them holds for any behaviour.
impl<'a> ReMatcher<'a> {
    #[verifier::external_body]
    pub fn is_duplicate_zero_length_match(&self, repeat: &Repeat, position: usize) -> (r: bool)
    { unimplemented!() }
}

// R1b (see wrap_int_step.rs): boxing an iterator does not change the sequence it yields.
impl AbsIter {
    #[verifier::external_body]
    pub fn wrap_force_progress(it: ForceProgressIterator) -> (r: AbsIter)
        ensures r@ == it.remaining(),
    { unimplemented!() }

    #[verifier::external_body]
    pub fn wrap_reluctant_repeat<'a>(it: ReluctantRepeatIterator<'a>) -> (r: AbsIter)
        ensures r@ == it.remaining(),
    { unimplemented!() }

    // GreedyRepeatIterator::next is verified for memory safety only (unit note); its sequence is not specified
    #[verifier::external_body]
    pub fn wrap_greedy_repeat<'a>(it: GreedyRepeatIterator<'a>) -> (r: AbsIter)
    { unimplemented!() }
}

pub assume_specification<'a, T: Copy>[ Option::<&'a T>::copied ](o: Option<&'a T>) -> (r: Option<T>)
    ensures o is Some ==> r == Some(*o->0), o is None ==> r is None;
