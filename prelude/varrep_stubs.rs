// TRUSTED PRELUDE — pieces of op_repeat.rs outside the reach of Verus here.
// `History::is_duplicate_zero_length_match` (HashMap keyed by the address of the Repeat node) is summarised
// without a functional contract: its *result* is unconstrained, so everything proved around it holds for
// either answer.
impl<'a> ReMatcher<'a> {
    #[verifier::external_body]
    pub fn is_duplicate_zero_length_match(&self, repeat: &Repeat, position: usize) -> (r: bool)
    { unimplemented!() }
}


pub assume_specification<'a, T: Copy>[ Option::<&'a T>::copied ](o: Option<&'a T>) -> (r: Option<T>)
    ensures o is Some ==> r == Some(*o->0), o is None ==> r is None;
