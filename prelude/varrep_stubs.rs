// TRUSTED PRELUDE — pieces of op_repeat.rs outside the reach of Verus here.
// `History::is_duplicate_zero_length_match` (HashMap keyed by the address of the Repeat node) and the
// greedy variable-length iterator's backtracking stack are summarised without a functional contract:
// their *results* are unconstrained, so everything proved around them holds for any behaviour.
impl<'a> ReMatcher<'a> {
    #[verifier::external_body]
    pub fn is_duplicate_zero_length_match(&self, repeat: &Repeat, position: usize) -> (r: bool)
    { unimplemented!() }
}

// GreedyRepeatIterator::next is verified for memory safety only: the sequence it yields is left unspecified
// (an uninterpreted function constrains nothing; it is listed here because the scan treats `uninterp` as trusted text)
impl<'a> IterView for GreedyRepeatIterator<'a> {
    uninterp spec fn remaining(&self) -> Seq<usize>;
}

pub assume_specification<'a, T: Copy>[ Option::<&'a T>::copied ](o: Option<&'a T>) -> (r: Option<T>)
    ensures o is Some ==> r == Some(*o->0), o is None ==> r is None;
