// TRUSTED PRELUDE — A-ARITH.
// A `Vec<T>` never holds more than isize::MAX bytes (std allocation limit), so a
// `Vec<char>` (4-byte elements) has at most usize::MAX / 8 elements. Verus does
// not know this; it is introduced as an axiom on the view length.
pub mod arith_axioms {
    use vstd::prelude::*;
    #[verifier::external_body]
    pub broadcast proof fn axiom_vec_char_len(v: Vec<char>)
        ensures #[trigger] v@.len() <= usize::MAX / 8,
    { }

    #[verifier::external_body]
    pub broadcast proof fn axiom_slice_char_len(v: &[char])
        ensures #[trigger] v@.len() <= usize::MAX / 8,
    { }
}
// @broadcast arith_axioms::axiom_vec_char_len
// @broadcast arith_axioms::axiom_slice_char_len
