// TRUSTED PRELUDE — callees of `ReCompiler::compile` summarised by contracts.
impl ReCompiler {
    // unit `parser` verifies the real parse_expr for safety/termination/rejections; here only its frame matters
    #[verifier::external_body]
    pub fn parse_expr(&mut self, compiler_flags: &[u32]) -> (r: Result<Operation, Error>)
        ensures
            final(self).pattern == old(self).pattern,
            final(self).len == old(self).len,
            final(self).re_flags == old(self).re_flags,
            final(self).idx <= final(self).len,
            final(self).capturing_open_paren_count >= old(self).capturing_open_paren_count,
            r is Err ==> r->Err_0 is Syntax,
    { unimplemented!() }
}

impl Operation {
    // A-DISPATCH: enum_dispatch forwards to the variant's `optimize`; unit `opt` covers those
    #[verifier::external_body]
    pub fn optimize(self, flags: &ReFlags) -> (r: Operation)
    { unimplemented!() }
}

impl ReProgram {
    // unit `program` verifies the real ReProgram::new; compile needs these fields only
    #[verifier::external_body]
    pub fn new(pattern: Vec<char>, operation: Operation, max_parens: Option<usize>, flags: ReFlags) -> (r: ReProgram)
        ensures
            r.pattern == pattern, r.operation == operation, r.max_parens == max_parens, r.flags == flags,
    { unimplemented!() }
}
