// TRUSTED PRELUDE — unit `state`.
// R2 (A-REFCELL): in this unit `state: RefCell<State>` is erased to `state: State`; `.borrow()` /
// `.borrow_mut()` disappear and a function that (transitively) writes takes `&mut self`. The dynamic
// borrow discipline of RefCell (no overlapping borrow_mut) is therefore NOT checked here; every borrow in
// re_matcher.rs is a temporary inside one expression statement (scanned by the driver: `refcell_scan`).
#[verifier::external_body]
pub struct History { _p: core::marker::PhantomData<u8> }

// R8: `V.extend(vec![None; n])`
#[verifier::external_body]
pub fn extend_with_none(v: &mut Vec<Option<usize>>, n: usize)
    requires old(v)@.len() + n <= usize::MAX,
    ensures final(v)@ == old(v)@ + Seq::new(n as nat, |i: int| None::<usize>),
{ unimplemented!() }

// A-CLONE: #[derive(Clone)] on CaptureState is structural identity
impl CaptureState {
    #[verifier::external_body]
    pub fn clone(&self) -> (r: CaptureState)
        ensures r == *self,
    { unimplemented!() }
}
