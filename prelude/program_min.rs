// TRUSTED PRELUDE — `ReProgram` as seen by matcher-side units: only the fields that code reads;
// the struct is not executable code, and the fields keep their real names and types.
pub struct ReProgram {
    pub flags: ReFlags,
    pub optimization_flags: u32,
    pub max_parens: Option<usize>,
    pub backtracking_limit: Option<usize>,
}

