// TRUSTED PRELUDE — A-ICU (case mapping part).
// `CaseMapper::simple_lowercase` is ICU4X's simple (single code point) lower-case
// mapping; it is abstracted by the uninterpreted function `lower`.
pub uninterp spec fn lower(c: char) -> char;

#[verifier::external_body]
pub struct CaseMapper { _p: core::marker::PhantomData<u8> }

impl CaseMapper {
    #[verifier::external_body]
    pub fn new() -> (r: CaseMapper) { unimplemented!() }

    #[verifier::external_body]
    pub fn simple_lowercase(&self, c: char) -> (r: char)
        ensures r == lower(c),
    { unimplemented!() }
}

// The property's notion (C11): "equal or simple upper/lower-case counterparts".
pub open spec fn case_eq(a: char, b: char) -> bool {
    a == b || lower(a) == lower(b)
}
