// TRUSTED PRELUDE — (continued, after the extracted types) the abstract operation's iterator
impl Operation {
    #[verifier::external_body]
    pub fn matches_iter<'a>(&'a self, matcher: &'a ReMatcher<'a>, position: usize) -> (r: AbsIter)
        ensures r@ == iter_pure(self, matcher.program.flags, matcher.search@, position as int),
    { unimplemented!() }
}
