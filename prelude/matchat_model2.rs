// TRUSTED PRELUDE — (continued, after the extracted types) the abstract operation's iterator
impl Operation {
    #[verifier::external_body]
    pub fn matches_iter<'a>(&'a self, matcher: &'a ReMatcher<'a>, position: usize) -> (r: AbsIter)
        // every operator is started inside the input (several of them compute `search.len() - position`) and yields
        // positions inside the input (A-ENGINE)
        requires position <= matcher.search@.len(),
        ensures r@ == iter_pure(self, matcher.program.flags, matcher.search@, position as int),
            forall|k: int| 0 <= k < r@.len() ==> #[trigger] r@[k] <= matcher.search@.len(),
    { unimplemented!() }
}

// CaptureState::set_paren_start / set_paren_end: contracts proved on the real text in unit `state`
// (set_entry: entry g becomes Some(p), the other entries are kept, new entries are None)
impl CaptureState {
    #[verifier::external_body]
    pub fn set_paren_start(&mut self, group_nr: usize, position: usize)
        requires old(self).wf() && group_nr <= usize::MAX / 16,
        ensures final(self).startn@.len() > group_nr && final(self).startn@[group_nr as int] == Some(position)
            && final(self).endn == old(self).endn && final(self).paren_count == old(self).paren_count && final(self).wf(),
    { unimplemented!() }
    #[verifier::external_body]
    pub fn set_paren_end(&mut self, group_nr: usize, position: usize)
        requires old(self).wf() && group_nr <= usize::MAX / 16,
        ensures final(self).endn@.len() > group_nr && final(self).endn@[group_nr as int] == Some(position)
            && final(self).startn == old(self).startn && final(self).paren_count == old(self).paren_count && final(self).wf(),
    { unimplemented!() }
}
