// TRUSTED PRELUDE — A-ICU (code point sets).
// `CodePointInversionList` / `CodePointInversionListBuilder` (icu_collections 1.5)
// are abstracted by their documented set semantics; a set of scalar values is
// represented by its membership predicate `has(c)`.
#[verifier::external_body]
pub struct CodePointInversionList<'a> { _p: core::marker::PhantomData<&'a u8> }

impl<'a> CodePointInversionList<'a> {
    pub uninterp spec fn has(&self, c: char) -> bool;

    #[verifier::external_body]
    pub fn contains(&self, c: char) -> (r: bool)
        ensures r == self.has(c),
    { unimplemented!() }

    #[verifier::external_body]
    pub fn all() -> (r: CodePointInversionList<'static>)
        ensures forall|c: char| #[trigger] r.has(c),
    { unimplemented!() }

    #[verifier::external_body]
    pub fn clone(&self) -> (r: CodePointInversionList<'a>)
        ensures forall|c: char| #[trigger] r.has(c) == self.has(c),
    { unimplemented!() }
}

// the inclusive bounds a std range of u32 denotes
pub trait U32Range {
    spec fn lo(&self) -> int;
    spec fn hi(&self) -> int;
}
impl U32Range for core::ops::RangeInclusive<u32> {
    open spec fn lo(&self) -> int { self@.start as int }
    open spec fn hi(&self) -> int { self@.end as int }
}
impl U32Range for core::ops::Range<u32> {
    open spec fn lo(&self) -> int { self.start as int }
    open spec fn hi(&self) -> int { self.end as int - 1 }
}

#[verifier::external_body]
pub struct CodePointInversionListBuilder { _p: core::marker::PhantomData<u8> }

impl CodePointInversionListBuilder {
    pub uninterp spec fn has(&self, c: char) -> bool;

    #[verifier::external_body]
    pub fn new() -> (r: CodePointInversionListBuilder)
        ensures forall|c: char| !#[trigger] r.has(c),
    { unimplemented!() }

    #[verifier::external_body]
    pub fn add_char(&mut self, c: char)
        ensures forall|x: char| #[trigger] final(self).has(x) == (old(self).has(x) || x == c),
    { unimplemented!() }

    #[verifier::external_body]
    pub fn remove_char(&mut self, c: char)
        ensures forall|x: char| #[trigger] final(self).has(x) == (old(self).has(x) && x != c),
    { unimplemented!() }

    #[verifier::external_body]
    pub fn add_range(&mut self, r: &core::ops::RangeInclusive<char>)
        ensures forall|x: char| #[trigger] final(self).has(x) == (old(self).has(x) || (r@.start <= x && x <= r@.end)),
    { unimplemented!() }

    // icu: `add_range32(&mut self, range: impl RangeBounds<u32>)`; both `a..=b` and `a..b` are accepted
    #[verifier::external_body]
    pub fn add_range32<R: U32Range>(&mut self, r: &R)
        ensures forall|x: char| #[trigger] final(self).has(x) == (old(self).has(x) || (r.lo() <= x as u32 && x as u32 <= r.hi())),
    { unimplemented!() }

    #[verifier::external_body]
    pub fn add_set(&mut self, s: &CodePointInversionList)
        ensures forall|x: char| #[trigger] final(self).has(x) == (old(self).has(x) || s.has(x)),
    { unimplemented!() }

    #[verifier::external_body]
    pub fn remove_set(&mut self, s: &CodePointInversionList)
        ensures forall|x: char| #[trigger] final(self).has(x) == (old(self).has(x) && !s.has(x)),
    { unimplemented!() }

    // icu: `retain_set` keeps the intersection; `complement_set` is the symmetric difference (x is in the result iff it
    // is in exactly one of the two). Not used by the code today; specified so that a rewording stays decidable.
    #[verifier::external_body]
    pub fn retain_set(&mut self, s: &CodePointInversionList)
        ensures forall|x: char| #[trigger] final(self).has(x) == (old(self).has(x) && s.has(x)),
    { unimplemented!() }

    #[verifier::external_body]
    pub fn complement_set(&mut self, s: &CodePointInversionList)
        ensures forall|x: char| #[trigger] final(self).has(x) == (old(self).has(x) != s.has(x)),
    { unimplemented!() }

    #[verifier::external_body]
    pub fn complement(&mut self)
        ensures forall|x: char| #[trigger] final(self).has(x) == !old(self).has(x),
    { unimplemented!() }

    #[verifier::external_body]
    pub fn build(self) -> (r: CodePointInversionList<'static>)
        ensures forall|x: char| #[trigger] r.has(x) == self.has(x),
    { unimplemented!() }
}
