// TRUSTED PRELUDE — A-ICU (icu_properties 1.5): General_Category data.
// `gc_is(v, c)`: c has General_Category value v; `gcg_has(g, c)`: c belongs to the category group g.
// Both are uninterpreted: that ICU's data *is* the Unicode data is assumption A-ICU (not decided here).
#[derive(Clone, Copy, PartialEq, Eq, Structural)]
pub enum GeneralCategory { DecimalNumber }

#[derive(Clone, Copy, PartialEq, Eq, Structural)]
pub enum GeneralCategoryGroup {
    Letter, UppercaseLetter, LowercaseLetter, TitlecaseLetter, ModifierLetter, OtherLetter,
    Mark, NonspacingMark, SpacingMark, EnclosingMark,
    Number, DecimalNumber, LetterNumber, OtherNumber,
    Punctuation, ConnectorPunctuation, DashPunctuation, OpenPunctuation, ClosePunctuation, InitialPunctuation, FinalPunctuation, OtherPunctuation,
    Separator, SpaceSeparator, LineSeparator, ParagraphSeparator,
    Symbol, MathSymbol, CurrencySymbol, ModifierSymbol, OtherSymbol,
    Other, Control, Format, PrivateUse, Unassigned,
}

pub uninterp spec fn gc_is(v: GeneralCategory, c: char) -> bool;
pub uninterp spec fn gcg_has(g: GeneralCategoryGroup, c: char) -> bool;

#[verifier::external_body]
pub struct CodePointSet { _p: core::marker::PhantomData<u8> }
impl CodePointSet {
    pub uninterp spec fn has(&self, c: char) -> bool;
    #[verifier::external_body]
    pub fn to_code_point_inversion_list(&self) -> (r: CodePointInversionList<'static>)
        ensures forall|c: char| #[trigger] r.has(c) == self.has(c),
    { unimplemented!() }
}
#[verifier::external_body]
pub struct GcMap { _p: core::marker::PhantomData<u8> }
impl GcMap {
    #[verifier::external_body]
    pub fn get_set_for_value(&self, v: GeneralCategory) -> (r: CodePointSet)
        ensures forall|c: char| #[trigger] r.has(c) == gc_is(v, c),
    { unimplemented!() }
}
pub mod maps {
    use super::*;
    #[verifier::external_body]
    pub fn general_category() -> (r: GcMap) { unimplemented!() }
}
pub mod sets {
    use vstd::prelude::*;
    use super::*;
    #[verifier::external_body]
    pub fn for_general_category_group(g: GeneralCategoryGroup) -> (r: CodePointSet)
        ensures forall|c: char| #[trigger] r.has(c) == gcg_has(g, c),
    { unimplemented!() }
}

// R6f: `name == "PrivateUse"` (str equality with a literal)
#[verifier::external_body]
pub fn str_eq(a: &str, b: &str) -> (r: bool)
    ensures r == (a@ == b@),
{ unimplemented!() }
