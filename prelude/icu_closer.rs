// TRUSTED PRELUDE — A-ICU (case closure)
// A-ICU: `CaseMapCloser::add_case_closure_to(c, builder)` adds the case closure of c — which does not
// necessarily contain c itself — to the builder. `closure` is uninterpreted.
pub uninterp spec fn closure(c: char, x: char) -> bool;   // x is in the case closure of c

#[verifier::external_body]
pub struct CaseMapCloser { _p: core::marker::PhantomData<u8> }
impl CaseMapCloser {
    #[verifier::external_body]
    pub fn new() -> (r: CaseMapCloser) { unimplemented!() }

    #[verifier::external_body]
    pub fn add_case_closure_to(&self, c: char, builder: &mut CodePointInversionListBuilder)
        ensures forall|x: char| #[trigger] final(builder).has(x) == (old(builder).has(x) || closure(c, x)),
    { unimplemented!() }
}

