// TRUSTED PRELUDE — callees of the `Regex` API functions, summarised by the
// contracts that other units prove (or state as not decided) for them.
pub struct ReCompiler { pub pattern: Vec<char>, pub re_flags: ReFlags }

impl ReFlags {
    // unit `flags` (Kani, bounded) checks the real `ReFlags::new` against the C07/C13/C17 flag sentence
    #[verifier::external_body]
    pub fn new(flags: &str, language: Language) -> (r: Result<ReFlags, Error>)
        ensures
            r is Ok ==> r->Ok_0.language == language,
            r is Err ==> r->Err_0 is InvalidFlags,
    { unimplemented!() }
}

impl ReCompiler {
    // unit `parser`: ReCompiler::new / compile
    #[verifier::external_body]
    pub fn new(pattern: Vec<char>, re_flags: ReFlags) -> (r: ReCompiler)
        ensures r.pattern == pattern, r.re_flags == re_flags,
    { unimplemented!() }

    #[verifier::external_body]
    pub fn compile(self) -> (r: Result<ReProgram, Error>)
        ensures
            r is Ok ==> r->Ok_0.flags == self.re_flags && r->Ok_0.max_parens is Some && r->Ok_0.max_parens->0 >= 1,
            r is Err ==> r->Err_0 is Syntax,
    { unimplemented!() }
}

// R7: `R.map(|chars| chars.into_iter().collect())` on `Result<Vec<char>, Error>`
#[verifier::external_body]
pub fn map_chars_to_string(r: Result<Vec<char>, Error>) -> (s: Result<String, Error>)
    ensures
        r is Ok ==> s is Ok && s->Ok_0@ == r->Ok_0@,
        r is Err ==> s is Err && s->Err_0 == r->Err_0,
{ unimplemented!() }


// `ReMatcher::replace` as seen by `Regex::replace_all`: its result is the function `replace_result` of the program, the
// input and the replacement (unit `replace` verifies the real function against the C15 specification; here only the
// wiring of the wrapper is at stake)
pub uninterp spec fn replace_result(program: &ReProgram, search: Seq<char>, replacement: Seq<char>) -> Result<Seq<char>, Error>;
impl<'a> ReMatcher<'a> {
    #[verifier::external_body]
    pub fn replace(&mut self, replacement: &[char]) -> (r: Result<Vec<char>, Error>)
        ensures
            replace_result(old(self).program, old(self).search@, replacement@) is Ok ==> r is Ok && r->Ok_0@ == replace_result(old(self).program, old(self).search@, replacement@)->Ok_0,
            replace_result(old(self).program, old(self).search@, replacement@) is Err ==> r is Err && r->Err_0 == replace_result(old(self).program, old(self).search@, replacement@)->Err_0,
    { unimplemented!() }
}
