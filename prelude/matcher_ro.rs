// TRUSTED PRELUDE — read-only view of the matcher for operator units.
//
// The real `ReMatcher` holds `program: &ReProgram`, `search: Vec<char>`,
// `case_mapper: CaseMapper` and `state: RefCell<State>`. Operator units see
// the first three as they are; the `RefCell<State>` is abstracted
// (A-REFCELL): reads return the components of an uninterpreted snapshot
// `st_*()` of the state at the time of the call, writes are opaque. This is
// sound for the functions placed on top of it because none of them reads a
// component after writing it (checked by the driver: `unit.state_rw_scan`).
//
// (`ReProgram`: prelude/program_min.rs)
pub struct ReMatcher<'a> {
    pub program: &'a ReProgram,
    pub search: Vec<char>,
    pub case_mapper: CaseMapper,
}

pub uninterp spec fn cleared_beyond(m: &ReMatcher, pos: int) -> bool;
impl<'a> ReMatcher<'a> {
    pub uninterp spec fn st_start_backref(&self) -> Seq<Option<usize>>;
    pub uninterp spec fn st_end_backref(&self) -> Seq<Option<usize>>;
    pub uninterp spec fn st_anchored(&self) -> bool;

    #[verifier::external_body]
    pub fn start_backref(&self, i: usize) -> (r: Option<usize>)
        requires i < self.st_start_backref().len(),
        ensures r == self.st_start_backref()[i as int],
    { unimplemented!() }

    #[verifier::external_body]
    pub fn end_backref(&self, i: usize) -> (r: Option<usize>)
        requires i < self.st_end_backref().len(),
        ensures r == self.st_end_backref()[i as int],
    { unimplemented!() }

    #[verifier::external_body]
    pub fn anchored_match(&self) -> (r: bool)
        ensures r == self.st_anchored(),
    { unimplemented!() }

    // writes through the RefCell: opaque here, specified in unit `state`
    #[verifier::external_body]
    pub fn set_paren_end(&self, group_nr: usize, position: usize) { unimplemented!() }
    #[verifier::external_body]
    pub fn set_paren_start(&self, group_nr: usize, position: usize) { unimplemented!() }
    #[verifier::external_body]
    pub fn clear_captured_groups_beyond(&self, pos: usize)
        // the state itself is opaque here; `cleared_beyond` only records, within one function body, THAT the call has
        // been made for this position (used by unit `choice`: a branch is started after the groups captured by the
        // branch given up have been discarded)
        ensures cleared_beyond(self, pos as int),
    { unimplemented!() }
}

// capture-state snapshot / restore through the RefCell: opaque here (unit `state` has the contracts)
#[verifier::external_body]
pub struct CaptureState { _p: core::marker::PhantomData<u8> }
impl CaptureState {
    #[verifier::external_body]
    pub fn clone(&self) -> (r: CaptureState) { unimplemented!() }
}
impl<'a> ReMatcher<'a> {
    #[verifier::external_body]
    pub fn capture_state(&self) -> (r: CaptureState) { unimplemented!() }
    #[verifier::external_body]
    pub fn reset_state(&self, capture_state: CaptureState) { unimplemented!() }
}
