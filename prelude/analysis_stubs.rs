// TRUSTED PRELUDE — unit `analysis`: A-DISPATCH. `#[enum_dispatch]` forwards `op.get_match_length()` etc. to the
// method of the variant's struct; every such method is verified in this unit against the same specification
// (`match_len`, `min_len`), so the forwarding stub below is sound by induction on the height of the tree.
// Where a variant's struct does not define a method, what runs is the default method of the trait (operation.rs:
// get_match_length = None, get_minimum_match_length = get_match_length().unwrap_or(0), contains_capturing_expressions =
// false); those bodies are extracted from the trait and verified for each variant that inherits them (directive
// `default operation.rs :: OperationControl`), against specifications that state the leaves explicitly.
impl Operation {
    #[verifier::external_body]
    pub fn get_match_length(&self) -> (r: Option<usize>)
        ensures r == match_len(*self),
    { unimplemented!() }

    #[verifier::external_body]
    pub fn get_minimum_match_length(&self) -> (r: usize)
        ensures r == min_len(*self),
    { unimplemented!() }

    // the same forwarding for contains_capturing_expressions (trait default: false, the `_ =>` arm of the specification)
    #[verifier::external_body]
    pub fn contains_capturing_expressions(&self) -> (r: bool)
        ensures r == below_has_capture(*self),
    { unimplemented!() }

    // and for matches_empty_string: zls_of(op) IS the answer of the variant's method (each of them is verified to return it)
    #[verifier::external_body]
    pub fn matches_empty_string(&self) -> (r: u32)
        ensures r == zls_of(*self),
    { unimplemented!() }
}
