// TRUSTED PRELUDE — A-ENGINE / A-DISPATCH for iterator units.
// A child `Operation` is opaque; `op.matches_iter(m, p)` yields exactly the finite sequence
// `iter_spec(op, m, p)` (A-ITER: finite). `iter_spec` is uninterpreted here, so the iterator under
// contract is verified for *every* child behaviour that satisfies the stated preconditions.
// Stated for programs without back-references (the only operator whose result depends on the
// mutable capture state): `iter_spec` is a function of the immutable matcher view.
#[verifier::external_body]
pub struct Operation { _p: core::marker::PhantomData<u8> }

pub uninterp spec fn iter_spec(op: &Operation, m: &ReMatcher, p: int) -> Seq<usize>;

impl Operation {
    #[verifier::external_body]
    pub fn matches_iter<'a>(&'a self, matcher: &'a ReMatcher<'a>, position: usize) -> (r: AbsIter)
        // every operator is started inside the input (several of them compute `search.len() - position`) and yields
        // positions inside the input (A-ENGINE)
        requires position <= matcher.search@.len(),
        ensures r@ == iter_spec(self, matcher, position as int),
            forall|k: int| 0 <= k < r@.len() ==> #[trigger] r@[k] <= matcher.search@.len(),
    { unimplemented!() }
}

pub open spec fn child_matches(op: &Operation, m: &ReMatcher, p: int) -> bool {
    iter_spec(op, m, p).len() > 0
}

// the static analyses of a child operation, as opaque facts (A-DISPATCH); unit `analysis` relates them to iter_spec
pub uninterp spec fn op_matches_empty(op: &Operation) -> u32;
pub uninterp spec fn op_match_length(op: &Operation) -> Option<usize>;
pub uninterp spec fn op_min_length(op: &Operation) -> usize;
pub uninterp spec fn op_has_captures(op: &Operation) -> bool;
impl Operation {
    #[verifier::external_body]
    pub fn matches_empty_string(&self) -> (r: u32) ensures r == op_matches_empty(self), { unimplemented!() }
    #[verifier::external_body]
    pub fn get_match_length(&self) -> (r: Option<usize>) ensures r == op_match_length(self), { unimplemented!() }
    #[verifier::external_body]
    pub fn get_minimum_match_length(&self) -> (r: usize) ensures r == op_min_length(self), { unimplemented!() }
    #[verifier::external_body]
    pub fn contains_capturing_expressions(&self) -> (r: bool) ensures r == op_has_captures(self), { unimplemented!() }
}
