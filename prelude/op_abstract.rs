// TRUSTED PRELUDE — A-ENGINE / A-DISPATCH for iterator units.
// A child `Operation` is opaque; `op.matches_iter(m, p)` yields exactly the finite sequence
// `iter_spec(op, m, p)` (A-ITER: finite). `iter_spec` is uninterpreted here, so the iterator under
// contract is verified for *every* child behaviour that satisfies the stated preconditions.
// Stated for programs without back-references (the only operator whose result depends on the
// mutable capture state): `iter_spec` is a function of the immutable matcher view.
#[verifier::external_body]
pub struct Operation { _p: core::marker::PhantomData<u8> }

pub uninterp spec fn iter_spec(op: &Operation, m: &ReMatcher, p: int) -> Seq<usize>;

impl Operation {
    #[verifier::external_body]
    pub fn matches_iter<'a>(&'a self, matcher: &'a ReMatcher<'a>, position: usize) -> (r: AbsIter)
        ensures r@ == iter_spec(self, matcher, position as int),
    { unimplemented!() }
}

pub open spec fn child_matches(op: &Operation, m: &ReMatcher, p: int) -> bool {
    iter_spec(op, m, p).len() > 0
}
