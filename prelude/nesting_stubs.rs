// TRUSTED PRELUDE — R8w: `vec![x; n]` (std: a vector of n copies of x)
#[verifier::external_body]
pub fn vec_repeat_usize(x: usize, n: usize) -> (r: Vec<usize>)
    ensures r@.len() == n, forall|i: int| 0 <= i < n ==> r@[i] == x,
{ unimplemented!() }
#[verifier::external_body]
pub fn vec_repeat_bool(x: bool, n: usize) -> (r: Vec<bool>)
    ensures r@.len() == n, forall|i: int| 0 <= i < n ==> r@[i] == x,
{ unimplemented!() }
