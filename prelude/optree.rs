// TRUSTED PRELUDE — pieces around the operator tree for compiler-side units.
// A-HASH: ahash `HashSet<usize>` as an opaque finite set.
#[verifier::external_body]
#[verifier::reject_recursive_types(K)]
pub struct HashSet<K> { _k: core::marker::PhantomData<K> }

impl HashSet<usize> {
    pub uninterp spec fn has(&self, k: usize) -> bool;

    #[verifier::external_body]
    pub fn new() -> (r: HashSet<usize>)
        ensures forall|k: usize| !r.has(k),
    { unimplemented!() }

    #[verifier::external_body]
    pub fn insert(&mut self, k: usize) -> (r: bool)
        ensures forall|x: usize| final(self).has(x) == (old(self).has(x) || x == k),
    { unimplemented!() }

    #[verifier::external_body]
    pub fn contains(&self, k: &usize) -> (r: bool)
        ensures r == self.has(*k),
    { unimplemented!() }
}

// A-CLONE: `#[derive(Clone)]` on plain data is structural identity.
impl ReFlags {
    #[verifier::external_body]
    pub fn clone(&self) -> (r: ReFlags)
        ensures r == *self,
    { unimplemented!() }
}

#[verifier::external_body]
pub fn vec_clone_chars(v: &Vec<char>) -> (r: Vec<char>)
    ensures r@ == v@,
{ unimplemented!() }

#[verifier::external_body]
pub fn vec_clone_ops(v: &Vec<Operation>) -> (r: Vec<Operation>)
    ensures r@ == v@,
{ unimplemented!() }

// R9: `V.extend(W)` for an owned `Vec<Operation>`
#[verifier::external_body]
pub fn vec_extend_ops(v: &mut Vec<Operation>, w: Vec<Operation>)
    ensures final(v)@ == old(v)@ + w@,
{ unimplemented!() }

// A-ARITH for `Vec<Operation>`: an `Operation` occupies at least 8 bytes (every variant but the unit
// structs holds a Vec / Box / usize), so such a vector has at most usize::MAX / 16 elements.
pub mod optree_axioms {
    use vstd::prelude::*;
    use super::Operation;
    #[verifier::external_body]
    pub broadcast proof fn axiom_vec_ops_len(v: Vec<Operation>)
        ensures #[trigger] v@.len() <= usize::MAX / 16,
    { }
}
// @broadcast optree_axioms::axiom_vec_ops_len
