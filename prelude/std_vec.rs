// TRUSTED PRELUDE — A-STD (Vec / slice helpers without a usable vstd specification).
// R9: `V.extend(E)` for a slice / slice iterator of `char`, and `X.to_vec()`.
#[verifier::external_body]
pub fn vec_extend(v: &mut Vec<char>, s: &[char])
    ensures final(v)@ == old(v)@ + s@,
{ unimplemented!() }

#[verifier::external_body]
pub fn slice_to_vec(s: &[char]) -> (r: Vec<char>)
    ensures r@ == s@,
{ unimplemented!() }

// R7: `X.iter().collect::<String>()` / `s.chars().collect()`: identity on the code point sequence.
#[verifier::external_body]
pub fn chars_to_string(s: &[char]) -> (r: String)
    ensures r@ == s@,
{ unimplemented!() }

#[verifier::external_body]
pub fn str_to_chars(s: &str) -> (r: Vec<char>)
    ensures r@ == s@,
{ unimplemented!() }

pub assume_specification[ char::is_ascii_digit ](c: &char) -> (r: bool)
    ensures r == ('0' <= *c && *c <= '9');

// std: U+0020 SPACE, U+0009 TAB, U+000A LF, U+000C FORM FEED, U+000D CR
pub assume_specification[ char::is_ascii_whitespace ](c: &char) -> (r: bool)
    ensures r == (*c == '\u{20}' || *c == '\u{9}' || *c == '\u{A}' || *c == '\u{C}' || *c == '\u{D}');

// std `char` predicates without a vstd specification: accepted with an uninterpreted result, so that code using
// them stays within reach (nothing is assumed about which characters they select)
pub uninterp spec fn char_is_alphabetic(c: char) -> bool;
pub uninterp spec fn char_is_uppercase(c: char) -> bool;
pub uninterp spec fn char_is_lowercase(c: char) -> bool;
pub uninterp spec fn char_is_alphanumeric(c: char) -> bool;
pub assume_specification[ char::is_alphabetic ](c: char) -> (r: bool) ensures r == char_is_alphabetic(c);
pub assume_specification[ char::is_uppercase ](c: char) -> (r: bool) ensures r == char_is_uppercase(c);
pub assume_specification[ char::is_lowercase ](c: char) -> (r: bool) ensures r == char_is_lowercase(c);
pub assume_specification[ char::is_alphanumeric ](c: char) -> (r: bool) ensures r == char_is_alphanumeric(c);
pub assume_specification[ char::is_ascii_alphabetic ](c: &char) -> (r: bool)
    ensures r == (('a' <= *c && *c <= 'z') || ('A' <= *c && *c <= 'Z'));
