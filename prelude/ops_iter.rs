// TRUSTED PRELUDE — A-ITER for `Box<dyn Iterator<Item = &'a Operation> + 'a>` built from `slice.iter()`:
// R1d: the boxed slice iterator is replaced by this cursor with the same semantics.
pub struct AbsOpsIter<'a> {
    pub ops: &'a [Operation],
    pub i: usize,
}

impl<'a> AbsOpsIter<'a> {
    pub open spec fn wf(&self) -> bool { self.i <= self.ops@.len() }

    pub fn from_slice(ops: &'a [Operation]) -> (r: AbsOpsIter<'a>)
        ensures r.ops == ops, r.i == 0, r.wf(),
    { AbsOpsIter { ops, i: 0 } }

    pub fn next(&mut self) -> (r: Option<&'a Operation>)
        requires old(self).wf(),
        ensures
            final(self).wf(), final(self).ops == old(self).ops,
            old(self).i < old(self).ops@.len() ==> r == Some(&old(self).ops@[old(self).i as int]) && final(self).i == old(self).i + 1,
            old(self).i >= old(self).ops@.len() ==> r is None && final(self).i == old(self).i,
    {
        if self.i < self.ops.len() {
            let x = &self.ops[self.i];
            self.i = self.i + 1;
            Some(x)
        } else {
            None
        }
    }
}
