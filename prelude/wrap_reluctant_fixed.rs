// TRUSTED PRELUDE — R1b (see wrap_int_step.rs): boxing an iterator does not change the sequence it yields.
impl AbsIter {
    #[verifier::external_body]
    pub fn wrap_reluctant_fixed<'a>(it: ReluctantFixedIterator<'a>) -> (r: AbsIter)
        ensures r@ == it.remaining(),
    { unimplemented!() }
}
