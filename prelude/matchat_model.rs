// TRUSTED PRELUDE — unit `matchat`: `ReMatcher::match_at` with the RefCell erased (R2, as in unit `state`) and the
// top-level operation abstract (A-ENGINE, pure form: the iterator's items are a function of operation, flags,
// haystack and start position). In this model the operation's iterator does not touch the capture state; everything
// `match_at` itself writes before and after running it is checked.
#[verifier::external_body]
pub struct Operation { _p: core::marker::PhantomData<u8> }
#[verifier::external_body]
pub struct History { _p: core::marker::PhantomData<u8> }

pub struct ReProgram {
    pub operation: Operation,
    pub flags: ReFlags,
    pub optimization_flags: u32,
    pub max_parens: Option<usize>,
}

pub uninterp spec fn iter_pure(op: &Operation, flags: ReFlags, search: Seq<char>, p: int) -> Seq<usize>;

// R8: `V.extend(vec![None; n])`
#[verifier::external_body]
pub fn extend_with_none(v: &mut Vec<Option<usize>>, n: usize)
    requires old(v)@.len() + n <= usize::MAX,
    ensures final(v)@ == old(v)@ + Seq::new(n as nat, |i: int| None::<usize>),
{ unimplemented!() }
