// TRUSTED PRELUDE — A-STD (iterator adapters without a vstd specification).
// R6b: `v.iter().skip(n)` followed by `.next()` calls is replaced by this cursor,
// which has the same semantics as `core::iter::Skip<core::slice::Iter<char>>`:
// the k-th call of next() yields `Some(&v[n + k])` while `n + k < v.len()`, then `None`.
pub struct SkipIter<'a> {
    pub v: &'a Vec<char>,
    pub i: usize,
}

pub fn slice_iter_skip<'a>(v: &'a Vec<char>, n: usize) -> (r: SkipIter<'a>)
    ensures r.v == v, r.i == n,
{
    SkipIter { v, i: n }
}

impl<'a> SkipIter<'a> {
    pub fn next(&mut self) -> (r: Option<&'a char>)
        ensures
            final(self).v == old(self).v,
            old(self).i < old(self).v@.len() ==> r == Some(&old(self).v@[old(self).i as int]) && final(self).i == old(self).i + 1,
            old(self).i >= old(self).v@.len() ==> r is None && final(self).i == old(self).i,
    {
        if self.i < self.v.len() {
            let x = &self.v[self.i];
            self.i = self.i + 1;
            Some(x)
        } else {
            None
        }
    }
}
