// TRUSTED PRELUDE — Sequence::contains_capturing_expressions is opaque in unit `seq`: its result only decides whether
// the capture state is snapshotted by SequenceIterator::new (unit `analysis` has its contract); unconstrained here.
impl Sequence {
    // opaque here: only decides whether the capture state is snapshotted (unit `analysis` has its contract)
    #[verifier::external_body]
    pub fn contains_capturing_expressions(&self) -> (r: bool) { unimplemented!() }
}
