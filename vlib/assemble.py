"""Assemble one Verus file per unit from
   * trusted prelude files (hand-written, /verif/prelude),
   * spec/lemma text of the unit (hand-written, proved by Verus),
   * type definitions and function bodies extracted as text from /repo,
   * contract clauses spliced in at signature / loop headers.

Every generated line carries an *origin* so that a Verus diagnostic can be
mapped back to a named clause or to a line of /repo.
"""
import hashlib
import os
import re
import sys

from .rustscan import Source, Lost, CODE, STR, COMMENT

VERIF = os.path.dirname(os.path.dirname(os.path.abspath(__file__)))


def repo_src():
    return os.path.join(os.environ.get('VERIF_REPO', '/repo'), 'regexml', 'src')


class UnitError(Exception):
    """Malformed unit file (framework bug) or lost anchor (=> exit 2)."""


# ------------------------------------------------------------------ unit DSL
class Clause:
    def __init__(self, kind, cid, props, text, loop=None):
        self.kind, self.cid, self.props, self.text, self.loop = kind, cid, props, text, loop


class FnSpec:
    def __init__(self, file, impl, name):
        self.file, self.impl, self.name = file, impl, name
        self.props = []
        self.clauses = []        # requires / ensures / loop invariants / decreases / raw
        self.rewrites = []       # (rule, old, new, multi)
        self.inserts = []        # (where, anchor, text)
        self.emit = None
        self.attrs = []
        self.rename = None
        self.ret = 'r'
        self.nocanary = False
        self.selfparam = None

    @property
    def qual(self):
        t = self.impl.split(' for ')[-1] if self.impl != '-' else ''
        return (t + '::' if t else '') + (self.rename or self.name)


class Unit:
    def __init__(self, name):
        self.name = name
        self.serves = []
        self.items = []          # ('include', path) ('spec', text, lineno) ('type', file, name, opts) ('const', file, name) ('fn', FnSpec)
        self.path = None
        self.bounded = []
        self.notes = []


DERIVED_FROM_C01 = ('C16', 'C20')
DIRECTIVES = ('default', 'strmatch', 'foldinv', 'foldloops', 'closure', 'fornext', 'boxiter', 'assert', 'forwhile', 'selfparam', 'props', 'requires', 'ensures', 'loop', 'rewrite', 'rewrite*', 'insert', 'emit', 'attr', 'rename',
              'ret', 'end', 'recommends', 'decreases', 'nocanary')


def parse_unit(path):
    lines = open(path, encoding='utf-8').read().split('\n')
    u = None
    i = 0
    cur = None

    def err(msg):
        raise UnitError(f'{path}:{i + 1}: {msg}')

    pending = None  # (setter, [lines])

    def flush():
        nonlocal pending
        if pending:
            setter, buf = pending
            setter('\n'.join(buf).rstrip())
            pending = None

    while i < len(lines):
        ln = lines[i]
        s = ln.strip()
        if cur is None:
            if not s or s.startswith('#'):
                i += 1
                continue
            w = s.split()
            if w[0] == 'unit':
                u = Unit(w[1])
                u.path = path
            elif w[0] == 'serves':
                u.serves += w[1:]
            elif w[0] == 'note':
                u.notes.append(s[5:])
            elif w[0] == 'include':
                u.items.append(('include', w[1]))
            elif w[0] == 'specfile':
                u.items.append(('specfile', w[1]))
            elif w[0] == 'spec' and s.endswith('<<<'):
                buf = []
                start = i + 2
                i += 1
                while lines[i].strip() != '>>>':
                    buf.append(lines[i])
                    i += 1
                u.items.append(('spec', '\n'.join(buf), start))
            elif w[0] == 'type':
                rest_t = s.split(None, 3)[3] if len(w) > 3 else ''
                topts = [o.strip() for o in re.findall(r'((?:sub:.*?=>.*?|derive:\S+))(?=\s+(?:sub:|derive:)|\s*$)', rest_t)]
                u.items.append(('type', w[1], w[2], topts))
            elif w[0] == 'const':
                u.items.append(('const', w[1], w[2]))
            elif w[0] == 'dispatch':
                u.items.append(('dispatch', w[1], w[2]))
            elif w[0] == 'fromimpl':
                u.items.append(('fromimpl', w[1], s.split(None, 2)[2]))
            elif w[0] == 'fn':
                m = re.match(r'fn\s+(\S+)\s*::\s*(.+?)\s*::\s*(\w+)\s*$', s)
                if not m:
                    err('bad fn line')
                cur = FnSpec(m.group(1), m.group(2), m.group(3))
                cur.props = list(u.serves)
                u.items.append(('fn', cur))
            else:
                err(f'unknown directive {w[0]}')
            i += 1
            continue
        # inside fn block
        first = s.split(None, 1)[0] if s else ''
        if (first in DIRECTIVES or re.match(r'rewrite\[\d+\]$', first)) and not ln.startswith('        '):
            flush()
            rest = s[len(first):].strip()
            if first == 'end':
                cur = None
            elif first == 'props':
                cur.props = rest.split()
            elif first == 'default':
                # `default FILE :: TRAIT`: when the impl block does not define the method, the body that runs is the
                # trait's default method; it is extracted from the trait and emitted for this type
                mdf = re.match(r'(\S+)\s*::\s*(\w+)\s*$', rest.strip())
                if not mdf:
                    err('bad default')
                cur.default = (mdf.group(1), mdf.group(2))
            elif first == 'emit':
                cur.emit = rest
            elif first == 'attr':
                cur.attrs.append(rest)
            elif first == 'rename':
                cur.rename = rest
            elif first == 'ret':
                cur.ret = rest
            elif first == 'nocanary':
                cur.nocanary = True
            elif first == 'selfparam':
                cur.selfparam = rest
            elif first == 'boxiter':
                cur.boxiter = True
            elif first == 'foldloops':
                cur.foldloops = True
            elif first == 'strmatch':
                cur.strmatch = True
            elif first == 'foldinv':
                m = re.match(r'(\d+)\s+([\w.\-]+)\s*(?:\[([^\]]*)\])?\s*:\s*(.*)$', rest, re.S)
                if not m:
                    err('bad foldinv')
                props = m.group(3).replace(',', ' ').split() if m.group(3) else list(cur.props)
                c = Clause('foldinv', f'{cur.qual}.fold{m.group(1)}.{m.group(2)}', props, '', loop=None)
                c.fold = int(m.group(1))
                cur.clauses.append(c)
                pending = ((lambda c: lambda t: setattr(c, 'text', t))(c), [m.group(4)])
            elif first == 'fornext':
                cur.fornext = getattr(cur, 'fornext', []) + [int(x) for x in rest.split()]
            elif first == 'closure':
                m = re.match(r'`(.*?)`\s*sig:\s*(.*)$', rest, re.S)
                if not m:
                    err('bad closure directive')
                cur.closure = (m.group(1), m.group(2).strip())
            elif first == 'assert':
                m = re.match(r'([\w.\-]+)\s*(?:\[([^\]]*)\])?\s*(after|before|loopend)(?:\[(\d+(?:/\d+)?)?(?:@L([\d-]+))?\])?\s*(?:`(.*?)`)?\s*:\s*(.*)$', rest, re.S)
                if not m:
                    err('bad assert')
                props = m.group(2).replace(',', ' ').split() if m.group(2) else list(cur.props)
                c = Clause('assert', cur.qual + '.' + m.group(1), props, '')
                anchor = ((m.group(6),) + tuple(int(x) for x in m.group(4).split('/'))) if m.group(4) else m.group(6)
                c.where, c.anchor, c.inloop = m.group(3), anchor, m.group(5)
                cur.clauses.append(c)
                pending = ((lambda c: lambda t: setattr(c, 'text', t))(c), [m.group(7)])
            elif first == 'forwhile':
                mfw = re.match(r'(\d+)\s+as\s+(.+)$', rest.strip())
                if mfw:
                    # `forwhile N as EXPR`: loop N is `for X in <slice-valued expression>`; EXPR is that expression as it reads after rewriting
                    cur.forwhile = getattr(cur, 'forwhile', []) + [int(mfw.group(1))]
                    cur.forwhile_as = dict(getattr(cur, 'forwhile_as', {}))
                    cur.forwhile_as[int(mfw.group(1))] = mfw.group(2).strip()
                else:
                    cur.forwhile = getattr(cur, 'forwhile', []) + [int(x) for x in rest.split()]
            elif first in ('requires', 'ensures', 'recommends', 'decreases'):
                if first == 'decreases':
                    c = Clause('decreases', cur.qual + '.decreases', list(cur.props), '')
                    cur.clauses.append(c)
                    pending = ((lambda c: lambda t: setattr(c, 'text', t))(c), [rest.lstrip(':').strip()])
                else:
                    m = re.match(r'([\w.\-]+)\s*(?:\[([^\]]*)\])?\s*:\s*(.*)$', rest, re.S)
                    if not m:
                        err('clause needs `<id> [props]: expr`')
                    props = m.group(2).replace(',', ' ').split() if m.group(2) else list(cur.props)
                    c = Clause(first, cur.qual + '.' + m.group(1), props, '')
                    cur.clauses.append(c)
                    pending = ((lambda c: lambda t: setattr(c, 'text', t))(c), [m.group(3)])
            elif first == 'loop':
                m = re.match(r'(\d+)\s+(invariant_except_break|invariant|ensures|decreases|raw)\s*([\w.\-]*)\s*(?:\[([^\]]*)\])?\s*:\s*(.*)$', rest, re.S)
                if not m:
                    err('bad loop clause')
                n, kind, cid, props, text = int(m.group(1)), m.group(2), m.group(3), m.group(4), m.group(5)
                cid = cid or kind
                props = props.replace(',', ' ').split() if props else list(cur.props)
                c = Clause('loop-' + kind, f'{cur.qual}.loop{n}.{cid}', props, '', loop=n)
                cur.clauses.append(c)
                pending = ((lambda c: lambda t: setattr(c, 'text', t))(c), [text])
            elif first in ('rewrite', 'rewrite*') or re.match(r'rewrite\[\d+\]$', first):
                m = re.match(r'(R\w+)\s*:\s*(.*)$', rest, re.S)
                if not m:
                    err('bad rewrite')
                rule = m.group(1)
                multi = first.endswith('*')
                mo = re.match(r'rewrite\[(\d+)\]$', first)
                if mo:
                    multi = ('nth', int(mo.group(1)))

                def setter(t, rule=rule, multi=multi, fn=cur):
                    mm = re.match(r'\s*`(.*?)`\s*=>\s*`(.*)`\s*$', t, re.S)
                    if not mm:
                        raise UnitError(f'{path}: bad rewrite body for {fn.qual}: {t!r}')
                    fn.rewrites.append((rule, mm.group(1), mm.group(2), multi))
                pending = (setter, [m.group(2)])
            elif first == 'insert':
                m = re.match(r'(after|before|start|end|loopend|loopstart|loopbefore|loopafter|exhaust)(?:\[(\d+(?:/\d+)?)?(?:@L([\d-]+))?\])?\s*(?:`(.*?)`)?\s*:\s*(.*)$', rest, re.S)
                if not m:
                    err('bad insert')
                where, anchor, inloop = m.group(1), m.group(4), m.group(3)
                if m.group(2):
                    anchor = (anchor,) + tuple(int(x) for x in m.group(2).split('/'))
                if where in ('loopend', 'loopstart', 'loopbefore', 'loopafter', 'exhaust'):
                    anchor = int(m.group(2) or 0)

                def setter(t, where=where, anchor=anchor, fn=cur, inloop=inloop):
                    fn.inserts.append((where, anchor, t))
                    if inloop is not None:
                        fn.inloop = dict(getattr(fn, 'inloop', {}))
                        fn.inloop[(where, anchor if not isinstance(anchor, list) else tuple(anchor))] = inloop
                pending = (setter, [m.group(5)])
            i += 1
            continue
        if pending is not None:
            pending[1].append(ln)
        elif s and not s.startswith('#'):
            err('text outside a directive')
        i += 1
    flush()
    if cur is not None:
        raise UnitError(f'{path}: fn block for {cur.qual} not closed with `end`')
    # a unit is run for every property that one of its named clauses is tagged with, not only for the ones in `serves`
    # (`serves` stays the default attribution of untagged obligations: lemmas, proof steps)
    u.tagged = set(u.serves)
    for it in u.items:
        if it[0] == 'fn':
            for c in it[1].clauses:
                # derived tags: whatever C01 (is_match decides membership) rests on, C16 (the regex matches the empty
                # string iff is_match("")) and C20 (two spellings of one pattern agree) rest on as well
                if 'C01' in c.props:
                    for d in DERIVED_FROM_C01:
                        if d not in c.props:
                            c.props = list(c.props) + [d]
                u.tagged |= set(c.props)
    return u


# ------------------------------------------------------------------ edits
class Edited:
    """Original text + non-overlapping edits, rendered with per-char origin."""

    def __init__(self, src, a, b):
        self.src, self.a, self.b = src, a, b
        self.edits = []  # (start, end, text, origin)

    soft = False   # while True, an edit that overlaps an earlier one is dropped (global rules yield to per-site ones)

    def add(self, start, end, text, origin):
        for (s, e, _, _) in self.edits:
            if not (end <= s or start >= e) and not (start == end == s == e):
                if start == end and (start == s or start == e):
                    continue
                if self.soft:
                    return
                raise UnitError(f'overlapping edits at {self.src.path}:{self.src.line_of(start)}')
        self.edits.append((start, end, text, origin))

    def render(self):
        """-> list of (text_piece, origin)"""
        out = []
        pos = self.a
        order = sorted(range(len(self.edits)), key=lambda k: (self.edits[k][0], self.edits[k][1], k))
        for k in order:
            s, e, text, origin = self.edits[k]
            if s > pos:
                out.append((self.src.text[pos:s], ('src', self.src, pos)))
            out.append((text, origin))
            pos = max(pos, e)
        if pos < self.b:
            out.append((self.src.text[pos:self.b], ('src', self.src, pos)))
        return out


class Out:
    def __init__(self):
        self.lines = []    # text
        self.origin = []   # per line origin tuple

    def add_text(self, text, origin):
        for ln in text.split('\n'):
            self.lines.append(ln)
            self.origin.append(origin)

    def add_pieces(self, pieces):
        """pieces: list of (text, origin) forming a contiguous text; split into lines;
        a line's origin is the origin of its first non-blank char."""
        cur, cur_origin = '', None
        for text, origin in pieces:
            off = 0
            for ch in text:
                if ch == '\n':
                    self.lines.append(cur)
                    self.origin.append(cur_origin or self._resolve(origin, off))
                    cur, cur_origin = '', None
                else:
                    if cur_origin is None and not ch.isspace():
                        cur_origin = self._resolve(origin, off)
                    cur += ch
                off += 1
        if cur:
            self.lines.append(cur)
            self.origin.append(cur_origin)

    @staticmethod
    def _resolve(origin, off):
        if origin and origin[0] == 'src':
            _, src, pos = origin
            return ('src', os.path.basename(src.path), src.line_of(pos + off))
        return origin


# ------------------------------------------------------------------ global rewrites
def global_rewrites(src, ed, a, b, log, item_ty='usize'):
    t = src.text
    # R1: boxed iterator type -> AbsIter
    for m in src.find_code(r"Box<dyn Iterator<Item\s*=\s*usize>(\s*\+\s*'\w+)?>", a, b):
        ed.add(m.start(), m.end(), 'AbsIter', ('rw', 'R1'))
        log.append('R1')
    # R0: module paths inside the crate are flattened (all extracted items live in one file)
    for m in src.find_code(r'\bcrate::(?:[a-z_][a-z0-9_]*::)+', a, b):
        ed.add(m.start(), m.end(), '', ('rw', 'R0'))
        log.append('R0')
    # R1a: once / empty
    for m in src.find_code(r'Box::new\(\s*std::iter::once\(', a, b):
        inner_open = m.end() - 1
        inner_close = src.match_close(inner_open)
        outer_close = src.next_code_char(')', inner_close + 1, b)
        ed.add(m.start(), inner_open, 'AbsIter::once', ('rw', 'R1a'))
        ed.add(inner_close + 1, outer_close + 1, '', ('rw', 'R1a'))
        log.append('R1a')
    for m in src.find_code(r'Box::new\(\s*std::iter::empty\(\)\s*\)', a, b):
        ed.add(m.start(), m.end(), 'AbsIter::empty()', ('rw', 'R1a'))
        log.append('R1a')
    # R6g: `S.replace([' ', '_'], "")` (str::replace with a set of chars and an empty replacement = delete those chars)
    for m in src.find_code(r"([A-Za-z_][\w.]*)\.replace\(\[' ', '_'\], \"\"\)", a, b):
        ed.add(m.start(), m.end(), f'str_strip_seps({m.group(1)})', ('rw', 'R6g'))
        log.append('R6g')
    # R1c: Self::Item of the usize iterators
    for m in src.find_code(r'Option<Self::Item>', a, b):
        ed.add(m.start(), m.end(), f'Option<{item_ty}>', ('rw', 'R1c'))
        log.append('R1c')
    # R3: format!(..)[.to_string()] / "lit".to_string() / literal argument of Error::syntax
    for m in src.find_code(r'\bformat!\(', a, b):
        close = src.match_close(m.end() - 1)
        end = close + 1
        mm = re.compile(r'\s*\.to_string\(\)').match(t, end)
        if mm:
            end = mm.end()
        ed.add(m.start(), end, 'verif_msg()', ('rw', 'R3'))
        log.append('R3')
    i = a
    while i < b:
        if src.kind[i] == STR and (i == a or src.kind[i - 1] != STR):
            j = i
            while j < b and src.kind[j] == STR:
                j += 1
            mm = re.compile(r'\s*\.to_string\(\)').match(t, j)
            before = t[max(a, i - 300):i]
            if mm:
                ed.add(i, mm.end(), 'verif_msg()', ('rw', 'R3'))
                log.append('R3')
            elif re.search(r'Error::syntax\(\s*$', before):
                ed.add(i, j, 'verif_msg()', ('rw', 'R3'))
                log.append('R3')
            i = j
        else:
            i += 1


def sha(text):
    return hashlib.sha256(text.encode()).hexdigest()


# ------------------------------------------------------------------ assembly
class Assembled:
    def __init__(self):
        self.out = Out()
        self.functions = []      # dicts: qual, file, lines, sha, props, clauses[...]
        self.clauses = {}        # cid -> Clause
        self.rewrites = []       # (fn, rule)
        self.trusted = []        # include files
        self.canary_lines = {}   # line no (1-based) -> label
        self.fn_hash = {}        # qual -> sha of extracted text


def sig_return_edit(src, ed, fn_kw, bo, retname):
    """name the return value: `-> T {` => `-> (r: T) {`"""
    # find '->' at depth 0 between fn_kw and bo
    j = fn_kw
    arrow = -1
    while j < bo:
        if src.kind[j] == CODE:
            c = src.text[j]
            if c in '([':
                j = src.match_close(j)
            elif c == '<':
                # generic list directly after fn name; skip balanced <>
                depth, k = 0, j
                while k < bo:
                    if src.kind[k] == CODE:
                        if src.text[k] == '<':
                            depth += 1
                        elif src.text[k] == '>' and src.text[k - 1] != '-':
                            depth -= 1
                            if depth == 0:
                                break
                    k += 1
                j = k
            elif src.text.startswith('->', j):
                arrow = j
                break
        j += 1
    if arrow < 0:
        return False
    ts = arrow + 2
    while src.text[ts].isspace():
        ts += 1
    te = bo
    # stop at `where` if any
    for m in src.find_code(r'\bwhere\b', ts, bo):
        te = m.start()
        break
    while src.text[te - 1].isspace():
        te -= 1
    ed.add(ts, ts, f'({retname}: ', ('rw', 'R0-ret'))
    ed.add(te, te, ')', ('rw', 'R0-ret'))
    return True


def assemble(unit, canary=False):
    asm = Assembled()
    out = asm.out
    out.add_text(f'// GENERATED by /verif/vlib/assemble.py from {os.path.relpath(unit.path, VERIF)} — do not edit', ('gen',))
    out.add_text('#![allow(unused_imports, unused_variables, unused_mut, dead_code, unused_assignments, unreachable_code, unused_parens, non_snake_case, unused_braces, irrefutable_let_patterns)]', ('gen',))
    out.add_text('use vstd::prelude::*;', ('gen',))
    out.add_text('verus! {', ('gen',))
    # A-ARITH: the crate is verified for a 64-bit target (usize is 8 bytes); Verus checks this against the host
    out.add_text('global size_of usize == 8;', ('prelude', 'assemble.py:global size_of usize == 8', 0))
    srcs = {}
    broadcasts = []

    def get_src(file):
        p = os.path.join(repo_src(), file)
        if p not in srcs:
            if not os.path.exists(p):
                raise Lost(f'{p}: file not found')
            srcs[p] = Source(p)
        return srcs[p]

    for item in unit.items:
        if item[0] == 'include':
            p = os.path.join(VERIF, item[1])
            asm.trusted.append(item[1])
            out.add_text(f'// ---- trusted prelude: {item[1]}', ('gen',))
            for n, ln in enumerate(open(p, encoding='utf-8').read().split('\n')):
                out.lines.append(ln)
                out.origin.append(('prelude', item[1], n + 1))
                mb = re.match(r'\s*// @broadcast (\S+)', ln)
                if mb:
                    broadcasts.append((mb.group(1), item[1], n + 1))
        elif item[0] == 'specfile':
            p = os.path.join(VERIF, item[1])
            out.add_text(f'// ---- shared specification file (definitions + proved lemmas, no assumptions): {item[1]}', ('gen',))
            for n, ln in enumerate(open(p, encoding='utf-8').read().split('\n')):
                out.lines.append(ln)
                out.origin.append(('spec', item[1], n + 1))
        elif item[0] == 'spec':
            out.add_text(f'// ---- unit specs and lemmas (proved, not trusted)', ('gen',))
            for n, ln in enumerate(item[1].split('\n')):
                out.lines.append(ln)
                out.origin.append(('spec', os.path.relpath(unit.path, VERIF), item[2] + n))
        elif item[0] == 'type':
            _, file, name, opts = item
            src = get_src(file)
            a, b = src.find_type(name)
            text = src.text[a:b]
            text = re.sub(r'pub\(crate\)\s*', 'pub ', text)
            # named fields -> pub
            if text.lstrip().startswith('struct'):
                text = re.sub(r'(?m)^(\s+)(?!pub\b)(\w+\s*:)', r'\1pub \2', text)
            # tuple struct with one private field
            text = re.sub(r'^(struct\s+\w+(?:<[^>]*>)?)\((?!pub\b)', r'\1(pub ', text)
            text = text.replace("<'static>", '<\'static>')
            text = re.sub(r'\bcrate::(?:[a-z_][a-z0-9_]*::)+', '', text)
            text = re.sub(r"Box<dyn Iterator<Item\s*=\s*usize>(\s*\+\s*'\w+)?>", 'AbsIter', text)
            text = re.sub(r"Box<dyn Iterator<Item\s*=\s*&'a Operation>(\s*\+\s*'\w+)?>", "AbsOpsIter<'a>", text)
            for o in opts:
                if o.startswith('sub:'):
                    old, new = o[4:].split('=>')
                    text = text.replace(old, new)
            out.add_text(f'// ---- type {name} extracted from {file}:{src.line_of(a)}', ('gen',))
            for o in opts:
                if o.startswith('derive:'):
                    # the source's own #[derive(..)] list is dropped with the other attributes (R0); the unit file
                    # re-states the traits executable code in this unit relies on (they are in the source's list)
                    out.add_text(f'#[derive({o[7:].replace(",", ", ")})]', ('gen',))
            base = src.line_of(a)
            for n, ln in enumerate(('pub ' + text).split('\n')):
                out.lines.append(ln)
                out.origin.append(('src', file, base + n))
        elif item[0] == 'dispatch':
            # R4: `#[enum_dispatch] enum Operation { Bol, Atom, .. }` -> tuple-variant enum + From impls
            _, file, name = item
            src = get_src(file)
            a, b = src.find_type(name)
            body = src.text[src.text.index('{', a) + 1:b - 1]
            variants = [v.strip() for v in re.sub(r'//[^\n]*', '', body).split(',') if v.strip()]
            if not all(re.match(r'^\w+$', v) for v in variants):
                raise Lost(f'{file}: enum {name} is not a plain enum_dispatch variant list: {variants}')
            out.add_text(f'// ---- R4: enum_dispatch expansion of {name} ({file}:{src.line_of(a)}), variants as in the source', ('gen',))
            gen = [f'pub enum {name} {{'] + [f'    {v}({v}),' for v in variants] + ['}']
            for v in variants:
                gen += [f'impl From<{v}> for {name} {{ fn from(v: {v}) -> {name} {{ {name}::{v}(v) }} }}',
                        f'impl vstd::std_specs::convert::FromSpecImpl<{v}> for {name} {{',
                        f'    open spec fn obeys_from_spec() -> bool {{ true }}',
                        f'    open spec fn from_spec(v: {v}) -> {name} {{ {name}::{v}(v) }}',
                        '}']
            out.add_text('\n'.join(gen), ('rw', 'R4'))
        elif item[0] == 'fromimpl':
            # a `impl From<A> for B { fn from(x: A) -> Self { EXPR } }` of the crate: emitted verbatim, plus the
            # vstd FromSpecImpl whose from_spec body is the same expression (so `.into()` / `B::from` are transparent)
            _, file, target = item
            src = get_src(file)
            ihs, ibo, ibc = src.find_impl(target)
            hs, fn_kw, bo, bc = src.find_fn('from', ibo + 1, ibc)
            sig = src.text[fn_kw:bo].strip()
            body = src.text[bo + 1:bc].strip()
            m = re.match(r'From<(.+)> for (\w+)$', target)
            if not m or ';' in body:
                raise Lost(f'{file}: impl {target}: not a single-expression From impl')
            a_ty, b_ty = m.group(1), m.group(2)
            pm = re.search(r'\(\s*(\w+)\s*:', sig)
            out.add_text(f'// ---- impl {target} extracted from {file}:{src.line_of(ihs)} (body verbatim; from_spec = same expression)', ('gen',))
            out.add_text(f'impl From<{a_ty}> for {b_ty} {{ {sig} {{ {body} }} }}', ('src', file, src.line_of(fn_kw)))
            out.add_text(f'impl vstd::std_specs::convert::FromSpecImpl<{a_ty}> for {b_ty} {{\n'
                         f'    open spec fn obeys_from_spec() -> bool {{ true }}\n'
                         f'    open spec fn from_spec({pm.group(1)}: {a_ty}) -> {b_ty} {{ {body} }}\n}}', ('rw', 'R4'))
        elif item[0] == 'const':
            _, file, name = item
            src = get_src(file)
            a, b = src.find_const(name)
            text = 'pub ' + src.text[a:b]
            out.add_text(f'// ---- const {name} extracted from {file}:{src.line_of(a)}', ('gen',))
            out.add_text(text, ('src', file, src.line_of(a)))
        elif item[0] == 'fn':
            emit_fn(asm, unit, item[1], get_src(item[1].file), canary)
    if broadcasts:
        # one module-level `broadcast use` per module is allowed: collected from the `// @broadcast` marks of the preludes
        out.lines.append('broadcast use {' + ', '.join(b[0] for b in broadcasts) + '};')
        out.origin.append(('prelude', broadcasts[0][1], broadcasts[0][2]))
    out.add_text('} // verus!', ('gen',))
    out.add_text('fn main() {}', ('gen',))
    return asm


def find_unique(src, needle, a, b, what):
    """position of a textual anchor between a and b (comments skipped). `needle` is the text (which must then occur exactly
    once), or (text, n): its n-th occurrence (1-based), or (text, n, m): its n-th occurrence of exactly m -- with m stated,
    an occurrence that was reworded, removed or added elsewhere is a lost anchor instead of a silently shifted one."""
    nth, total = None, None
    if isinstance(needle, tuple):
        total = needle[2] if len(needle) > 2 else None
        needle, nth = needle[0], needle[1]
    hits = []
    start = a
    while True:
        j = src.text.find(needle, start, b)
        if j < 0:
            break
        if src.kind[j] != COMMENT:
            hits.append(j)
        start = j + 1
    if os.environ.get('VERIF_PRINT_NTH') and nth is not None:
        print('NTH\t%s\t%s\t%d\t%d' % (what, needle.replace('\n', '\\n'), nth, len(hits)), file=sys.stderr)
    if nth is not None:
        if total is not None and len(hits) != total:
            raise Lost(f'lost anchor: {what}: `{needle}` occurs {len(hits)} times, the unit addresses occurrence {nth} of {total}')
        if nth > len(hits):
            raise Lost(f'lost anchor: {what}: occurrence {nth} of `{needle}` not found ({len(hits)} present)')
        return hits[nth - 1]
    if len(hits) != 1:
        raise Lost(f'lost anchor: {what}: `{needle}` occurs {len(hits)} times in {os.path.basename(src.path)} '
                   f'lines {src.line_of(a)}-{src.line_of(b)}')
    return hits[0]


_OPND = r'(?:\*?[A-Za-z_][\w.]*(?:\(\))?|\d+)'
_FLIP = {'>=': '<=', '<=': '>=', '>': '<', '<': '>', '==': '=='}


def anchor_variants(text):
    """equivalent spellings of one line of code, used only to *locate* a proof hint or a named assertion when the line it
    is attached to was reworded (the code that is verified is always the text in /repo): operands of one comparison
    swapped, `x += n` written out, `a != b` as `!(a == b)`, `is_empty()` against `len()`, operands of a top-level `||`/`&&`
    in an `if` swapped."""
    out = []
    for m in re.finditer(r'(?<![\w.)])(?<![-+*/%] )(' + _OPND + r') (>=|<=|>|<|==) (' + _OPND + r')(?![\w.(\[])(?! [-+*/%])', text):
        out.append(text[:m.start()] + f'{m.group(3)} {_FLIP[m.group(2)]} {m.group(1)}' + text[m.end():])
    for m in re.finditer(r'(?<![\w.)!])(' + _OPND + r') != (' + _OPND + r')(?![\w.(\[])', text):
        out.append(text[:m.start()] + f'!({m.group(1)} == {m.group(2)})' + text[m.end():])
    m = re.match(r'^(\s*)([A-Za-z_][\w.]*) ([-+])= (\d+|[A-Za-z_][\w.]*);$', text)
    if m:
        out.append(f'{m.group(1)}{m.group(2)} = {m.group(2)} {m.group(3)} {m.group(4)};')
    for m in re.finditer(r'(!?)([A-Za-z_][\w.]*)\.is_empty\(\)', text):
        out.append(text[:m.start()] + (f'{m.group(2)}.len() > 0' if m.group(1) else f'{m.group(2)}.len() == 0') + text[m.end():])
    m = re.match(r'^(\s*(?:\} else )?if )([^|&{]+?) (\|\||&&) ([^|&{]+?)( \{)$', text)
    if m:
        out.append(f'{m.group(1)}{m.group(4)} {m.group(3)} {m.group(2)}{m.group(5)}')
    return [v for v in dict.fromkeys(out) if v != text]


def all_hits(src, needle, a, b):
    hits, start = [], a
    while True:
        j = src.text.find(needle, start, b)
        if j < 0:
            return hits
        if src.kind[j] != COMMENT:
            hits.append(j)
        start = j + 1


def find_anchor(src, anchor, a, b, what):
    """(position, length) of a positional anchor; a reworded line is found through `anchor_variants`"""
    try:
        return find_unique(src, anchor, a, b, what), len(anchor[0]) if isinstance(anchor, tuple) else len(anchor)
    except Lost as e:
        if isinstance(anchor, tuple):
            # occurrence n of m: count the occurrences of the line and of its equivalent spellings together
            if len(anchor) < 3:
                raise
            hits = sorted((j, len(v)) for v in [anchor[0]] + anchor_variants(anchor[0]) for j in all_hits(src, v, a, b))
            if len(hits) != anchor[2] or len({j for j, _ in hits}) != len(hits):
                raise
            return hits[anchor[1] - 1]
        if 'occurs 0 times' not in str(e):
            raise
        found = []
        for v in anchor_variants(anchor):
            try:
                found.append((find_unique(src, v, a, b, what), len(v)))
            except Lost:
                pass
        if len(found) != 1:
            raise
        return found[0]


def innermost_loop(src, bo, bc, pos):
    """index (in source order) of the innermost loop of the body (bo, bc) that contains pos, or '-'"""
    best = '-'
    for k, (kw_start, kw, lbo, lbc) in enumerate(src.loops(bo, bc)):
        if lbo < pos <= lbc:
            best = str(k)
    return best


def check_inloop(src, bo, bc, pos, expected, what):
    """a positional anchor may state the loop it stands in (`@L1`, `@L-` for none): a statement that was moved across a
    loop boundary is then a lost anchor - the hint would otherwise be applied to a different loop than it was written for"""
    if os.environ.get('VERIF_PRINT_INLOOP'):
        print('INLOOP\t%s\t%s' % (what, innermost_loop(src, bo, bc, pos)), file=sys.stderr)
    if expected is not None and innermost_loop(src, bo, bc, pos) != expected:
        raise Lost(f'lost anchor: {what}: expected inside loop {expected}, found inside loop {innermost_loop(src, bo, bc, pos)}')


def emit_fn(asm, unit, fs, src, canary):
    out = asm.out
    file_used = fs.file
    if fs.impl != '-':
        ihs, ibo, ibc = src.find_impl(fs.impl)
        try:
            hs, fn_kw, bo, bc = src.find_fn(fs.name, ibo + 1, ibc)
        except Lost:
            if not getattr(fs, 'default', None):
                raise
            # the type does not override the method: what runs is the default method of the trait
            src = Source(os.path.join(repo_src(), fs.default[0]))
            file_used = fs.default[0] + ' (default method of trait ' + fs.default[1] + ', not overridden in ' + fs.file + ')'
            ths, tbo, tbc = src.find_trait(fs.default[1])
            hs, fn_kw, bo, bc = src.find_fn(fs.name, tbo + 1, tbc)
    else:
        hs, fn_kw, bo, bc = src.find_fn(fs.name)
    closure_sig = None
    if getattr(fs, 'closure', None):
        # R10: a closure literal `ANCHOR { BODY }` inside the function is lifted into a named function whose
        # parameters are the closure's parameters and captured variables (signature given by the unit file); BODY verbatim
        anchor, closure_sig = fs.closure
        j = find_unique(src, anchor, bo, bc + 1, f'closure in {fs.qual}')
        cbo = src.next_code_char('{', j + len(anchor) - 1, bc)
        if cbo < 0:
            raise Lost(f'lost anchor: closure body after `{anchor}` in {fs.qual}')
        cbc = src.match_close(cbo)
        fn_kw, bo, bc = cbo, cbo, cbc
    orig_text = src.text[fn_kw:bc + 1]
    fhash = sha(orig_text)
    ed = Edited(src, fn_kw, bc + 1)
    if closure_sig:
        ed.add(fn_kw, fn_kw, closure_sig + ' ', ('rw', 'R10'))
    log = []
    item_ty = 'usize'
    if fs.impl != '-':
        for m in src.find_code(r'\btype\s+Item\s*=\s*([^;]+);', ibo, ibc):
            item_ty = m.group(1).strip()
    if fs.rename and not closure_sig:
        m = re.compile(r'fn\s+(\w+)').match(src.text, fn_kw)
        ed.add(m.start(1), m.end(1), fs.rename, ('rw', 'R0-name'))
    if not closure_sig:
        sig_return_edit(src, ed, fn_kw, bo, fs.ret)
    # per-site rewrites
    for rule, old, new, multi in fs.rewrites:
        if isinstance(multi, tuple):
            j = find_unique(src, (old, multi[1]), fn_kw, bc + 1, f'rewrite {rule} in {fs.qual}')
            ed.add(j, j + len(old), new, ('rw', rule))
        elif multi:
            start, cnt = fn_kw, 0
            while True:
                j = src.text.find(old, start, bc + 1)
                if j < 0:
                    break
                if src.kind[j] != COMMENT:
                    ed.add(j, j + len(old), new, ('rw', rule))
                    cnt += 1
                start = j + len(old)
            if cnt == 0:
                raise Lost(f'lost anchor: rewrite {rule} in {fs.qual}: `{old}` not found')
        else:
            j = find_unique(src, old, fn_kw, bc + 1, f'rewrite {rule} in {fs.qual}')
            ed.add(j, j + len(old), new, ('rw', rule))
        log.append(rule)
    if fs.selfparam:
        # R12: by-value `mut self` receiver -> ordinary parameter `mut this: T`; token `self` -> `this`
        ty = fs.impl.split(' for ')[-1]
        m = re.compile(r'\(\s*mut\s+self\b').search(src.text, fn_kw, bo)
        if not m:
            raise Lost(f'lost anchor: {fs.qual}: `mut self` receiver not found')
        ed.add(m.start(), m.end(), f'(mut {fs.selfparam}: {ty}', ('rw', 'R12'))
        def covered(p):
            return any(s0 <= p < e0 for (s0, e0, _, _) in ed.edits)
        for mm in src.find_code(r'\bself\b', bo, bc + 1):
            if not covered(mm.start()):
                ed.add(mm.start(), mm.end(), fs.selfparam, ('rw', 'R12'))
        for mm in src.find_code(r'\bSelf\b', bo, bc + 1):
            if not covered(mm.start()):
                ed.add(mm.start(), mm.end(), ty, ('rw', 'R12'))
        log.append('R12')
    if getattr(fs, 'foldloops', False):
        # R13: `E.iter().fold(I, |a, x| B)` / `E.iter().try_fold(I, |a, x| B)` -> the index loop that defines them;
        #      a trailing `X.map(|v| F)` inside B -> `match X { Some(v) => Some(F), None => None }` (definition of Option::map)
        fold_no = -1
        for m in src.find_code(r'(self\.\w+)\s*\.iter\(\)\s*\.(try_fold|fold)\(', bo, bc + 1):
            fold_no += 1
            recv, kind = m.group(1), m.group(2)
            op_paren = m.end() - 1
            cl_paren = src.match_close(op_paren)
            inner = src.text[op_paren + 1:cl_paren]
            mm = re.match(r'\s*([^,]+?)\s*,\s*\|\s*(\w+)\s*,\s*(\w+)\s*\|\s*(.*)$', inner, re.S)
            if not mm:
                raise Lost(f'{fs.qual}: fold closure not of the form |a, x| B')
            init, a, x, body = mm.group(1), mm.group(2), mm.group(3), mm.group(4).strip()
            if body.startswith('{') and body.endswith('}'):
                body = body[1:-1].strip()
                if ';' in body:
                    body = '{ ' + body + ' }'      # a block of statements stays a block expression
            mp = re.match(r'(.*)\.map\(\s*\|\s*(\w+)\s*\|\s*(.*)\)\s*$', body, re.S)
            if mp:
                body = f'match {mp.group(1).strip()} {{ Some({mp.group(2)}) => Some({mp.group(3).strip()}), None => None }}'
            invs = [c for c in fs.clauses if c.kind == 'foldinv' and c.fold == fold_no]
            if kind == 'fold':
                head = (f'{{ let verif_s = &{recv}; let mut {a} = {init}; let mut verif_i: usize = 0;\n'
                        f'        while verif_i < verif_s.len()\n')
                tail = f'        {{ let {x} = &verif_s[verif_i]; {a} = {body}; verif_i += 1; }}\n        {a} }}'
            else:
                head = (f'{{ let verif_s = &{recv}; let mut verif_acc = Some({init}); let mut verif_i: usize = 0;\n'
                        f'        while verif_i < verif_s.len() && verif_acc.is_some()\n')
                tail = (f'        {{ let {a} = verif_acc.unwrap(); let {x} = &verif_s[verif_i]; verif_acc = {body}; verif_i += 1; }}\n        verif_acc }}')
            ed.add(m.start(), cl_paren + 1, head, ('rw', 'R13'))
            ed.edits.append((cl_paren + 1, cl_paren + 1, '            invariant\n', ('gen',)))
            for c in invs:
                asm.clauses[c.cid] = c
                ed.edits.append((cl_paren + 1, cl_paren + 1, f'                {c.text},\n', ('clause', c.cid)))
            ed.edits.append((cl_paren + 1, cl_paren + 1, '            decreases verif_s.len() - verif_i,\n' + tail, ('rw', 'R13')))
            log.append('R13')
    if getattr(fs, 'strmatch', False):
        # R16: `match X { "lit" => E1, "a" | "b" => E2, _ => E3 }` on a `&str` scrutinee X (an identifier) ->
        #      `if str_eq(X, "lit") { E1 } else if str_eq(X, "a") || str_eq(X, "b") { E2 } else { E3 }`
        #      (definition of matching a &str against literal patterns, arms tried in order); arm expressions verbatim
        n16 = 0
        for m in src.find_code(r'\bmatch\s+(\w+)\s*\{', bo, bc + 1):
            x = m.group(1)
            mbo = m.end() - 1
            mbc = src.match_close(mbo)
            arms, pos, ok = [], mbo + 1, True
            while True:
                while pos < mbc and (src.text[pos].isspace() or src.kind[pos] == COMMENT):
                    pos += 1
                if pos >= mbc:
                    break
                arrow = -1
                for mm in src.find_code(r'=>', pos, mbc):
                    arrow = mm.start()
                    break
                if arrow < 0:
                    ok = False
                    break
                pat = src.text[pos:arrow].strip()
                alts = [a.strip() for a in pat.split('|')]
                if not (pat == '_' or all(re.fullmatch(r'"(?:[^"\\]|\\.)*"', a) for a in alts)):
                    ok = False
                    break
                e0 = arrow + 2
                while src.text[e0].isspace():
                    e0 += 1
                j, depth = e0, 0
                while j < mbc:
                    if src.kind[j] == CODE:
                        c = src.text[j]
                        if c in '([{':
                            j = src.match_close(j)
                            if src.text[e0] == '{' and j == src.match_close(e0):
                                j += 1
                                break
                        elif c == ',':
                            break
                    j += 1
                e1 = j          # end of the arm expression (exclusive)
                k = e1
                while k < mbc and (src.text[k].isspace() or src.kind[k] == COMMENT):
                    k += 1
                comma = k if k < mbc and src.text[k] == ',' and src.kind[k] == CODE else None
                arms.append((pos, arrow + 2, pat, alts, e1, comma))
                pos = (comma + 1) if comma is not None else e1
            if not ok or not arms or not any(a[2] != '_' for a in arms):
                continue       # not a match on string literals
            if arms[-1][2] != '_':
                raise Lost(f'{fs.qual}: match on string literals without a final `_` arm (R16 not applicable)')
            ed.add(m.start(), m.end(), '', ('rw', 'R16'))
            for idx, (p0, p1, pat, alts, e1, comma) in enumerate(arms):
                if pat == '_':
                    head = 'else {' if idx else '{'
                else:
                    cond = ' || '.join(f'str_eq({x}, {a})' for a in alts)
                    head = ('else if ' if idx else 'if ') + cond + ' {'
                ed.add(p0, p1, head, ('rw', 'R16'))
                if comma is not None:
                    ed.add(comma, comma + 1, ' }', ('rw', 'R16'))
                else:
                    ed.add(e1, e1, ' }', ('rw', 'R16'))
            ed.add(mbc, mbc + 1, '', ('rw', 'R16'))
            n16 += 1
            log.append('R16')
        if n16 == 0:
            raise Lost(f'lost anchor: {fs.qual}: no `match` on string literals found (R16)')
    # R6h: for a parameter `X: &str`, `X.len() == 0` is `X.is_empty()` and `X.len() != 0` / `X.len() > 0` is `!X.is_empty()`
    #      (std: str::is_empty is defined as len() == 0; vstd relates is_empty, not the byte length, to the view)
    for pm in re.finditer(r'(\w+)\s*:\s*&(?:\'\w+\s+)?str\b', src.text[fn_kw:bo]):
        x = pm.group(1)
        for m in src.find_code(r'\b' + re.escape(x) + r'\.len\(\)\s*(==|!=|>)\s*0\b', bo, bc + 1):
            ed.add(m.start(), m.end(), (x + '.is_empty()') if m.group(1) == '==' else ('!' + x + '.is_empty()'), ('rw', 'R6h'))
            log.append('R6h')
    ed.soft = True
    global_rewrites(src, ed, fn_kw, bc + 1, log, item_ty)
    if getattr(fs, 'boxiter', False):
        # R1b: in a function that returns a boxed iterator, every remaining `Box::new(` boxes an iterator
        for m in src.find_code(r'\bBox::new\(', bo, bc + 1):
            n_before = len(ed.edits)
            ed.add(m.start(), m.end(), 'AbsIter::wrap(', ('rw', 'R1b'))
            if len(ed.edits) > n_before:
                log.append('R1b')
    ed.soft = False
    # contract clauses at the signature
    sig = []
    groups = [('requires', 'requires'), ('ensures', 'ensures'), ('decreases', 'decreases')]
    head_pieces = []
    for kind, kw in groups:
        cs = [c for c in fs.clauses if c.kind == kind]
        if not cs:
            continue
        head_pieces.append((f'\n    {kw}\n', ('gen',)))
        for c in cs:
            asm.clauses[c.cid] = c
            head_pieces.append((f'        {c.text},\n', ('clause', c.cid)))
    if head_pieces:
        head_pieces.append(('', ('gen',)))
    # we insert header pieces as separate edits at `bo`
    for k, (text, origin) in enumerate(head_pieces):
        ed.edits.append((bo, bo, text, origin))
    # canary / start inserts just after `{`
    start_ins = []
    for where, anchor, text in fs.inserts:
        if where == 'start':
            start_ins.append(text)
    if canary and not fs.nocanary:
        ed.edits.append((bo + 1, bo + 1, f'\n    proof {{ assert(false); }} // CANARY {fs.qual}\n', ('canary', fs.qual)))
    for text in start_ins:
        ed.edits.append((bo + 1, bo + 1, '\n' + text + '\n', ('proof', fs.qual)))
    for where, anchor, text in fs.inserts:
        if where in ('after', 'before'):
            j, alen = find_anchor(src, anchor, bo, bc + 1, f'insert in {fs.qual}')
            check_inloop(src, bo, bc, j, getattr(fs, 'inloop', {}).get((where, anchor)), f'insert {where} {anchor!r} in {fs.qual}')
            p = j + alen if where == 'after' else j
            ed.edits.append((p, p, '\n' + text + '\n', ('proof', fs.qual)))
        elif where == 'end':
            ed.edits.append((bc, bc, '\n' + text + '\n', ('proof', fs.qual)))
    # named assertions (obligations with a clause id, placed at an anchor inside the body)
    for c in fs.clauses:
        if c.kind == 'assert':
            if c.where == 'loopend':
                lps = src.loops(bo, bc)
                n = c.anchor[1] if isinstance(c.anchor, tuple) else 0
                if n >= len(lps):
                    raise Lost(f'lost anchor: assert {c.cid}: loop {n} not found')
                pos = lps[n][3]
            else:
                j, alen = find_anchor(src, c.anchor, bo, bc + 1, f'assert {c.cid}')
                check_inloop(src, bo, bc, j, getattr(c, 'inloop', None), f'assert {c.cid}')
                pos = j + alen if c.where == 'after' else j
            asm.clauses[c.cid] = c
            ed.edits.append((pos, pos, '\n proof { assert(\n', ('gen',)))
            ed.edits.append((pos, pos, f'            {c.text}\n', ('clause', c.cid)))
            ed.edits.append((pos, pos, ' ); }\n', ('gen',)))
    # loops
    loops = src.loops(bo, bc)
    for where, anchor, text in fs.inserts:
        if where in ('loopend', 'loopstart', 'loopbefore', 'loopafter'):
            if anchor >= len(loops):
                raise Lost(f'lost anchor: {fs.qual} has {len(loops)} loops, insert addresses loop {anchor}')
            kw_start, kw, lbo, lbc = loops[anchor]
            pos = {'loopend': lbc, 'loopstart': lbo + 1, 'loopbefore': kw_start, 'loopafter': lbc + 1}[where]
            ed.edits.append((pos, pos, '\n' + text + '\n', ('proof', fs.qual)))
    for n in getattr(fs, 'fornext', []):
        # R11d: `for X in E { B }` over an iterator without a vstd for-loop specification
        #       -> `let mut it = E; loop { let X = match it.next() { Some(v) => v, None => break }; B }` (definition of `for`)
        if n >= len(loops):
            raise Lost(f'lost anchor: {fs.qual} has {len(loops)} loops, fornext addresses loop {n}')
        kw_start, kw, lbo, lbc = loops[n]
        hdr = src.text[kw_start:lbo]
        m0 = re.match(r'for\s+(\w+)\s+in\s+(.+?)\s*$', hdr, re.S)
        if kw != 'for' or not m0 or any(True for _ in src.find_code(r'\bcontinue\b', lbo, lbc)):
            raise Lost(f'{fs.qual}: loop {n} is not a simple `for X in E` without `continue` (R11d not applicable)')
        x, e = m0.group(1), m0.group(2)
        exh = ' '.join(t for (w, a, t) in fs.inserts if w == 'exhaust' and a == n)
        if e.endswith('.by_ref()'):
            # `for X in it.by_ref()`: the loop advances `it` itself
            base = e[:-len('.by_ref()')]
            ed.add(kw_start, lbo, 'loop ', ('rw', 'R11d'))
            ed.edits.append((lbo + 1, lbo + 1, f' let {x} = match {base}.next() {{ Some(v) => v, None => {{ {exh} break; }} }};', ('rw', 'R11d')))
        else:
            ed.add(kw_start, lbo, f'let mut verif_it_{x} = {e}; loop ', ('rw', 'R11d'))
            ed.edits.append((lbo + 1, lbo + 1, f' let {x} = match verif_it_{x}.next() {{ Some(v) => v, None => {{ {exh} break; }} }};', ('rw', 'R11d')))
        log.append('R11d')
    # R11b: `for` over a range / enumerate()d slice that is left by `break` -> the equivalent `while`
    for n in getattr(fs, 'forwhile', []):
        if n >= len(loops):
            raise Lost(f'lost anchor: {fs.qual} has {len(loops)} loops, forwhile addresses loop {n}')
        kw_start, kw, lbo, lbc = loops[n]
        hdr = src.text[kw_start:lbo]
        body = src.text[lbo:lbc]
        if kw != 'for' or any(True for _ in src.find_code(r'\bcontinue\b', lbo, lbc)):
            raise Lost(f'{fs.qual}: loop {n} is not a `for` without `continue` (R11b not applicable)')
        m1 = re.match(r'for\s+(\w+)\s+in\s+(.+?)\.\.(?!=)(.+?)\s*$', hdr, re.S)
        m2 = re.match(r'for\s+\(\s*(\w+)\s*,\s*(\w+)\s*\)\s+in\s+(.+?)\.iter\(\)\.enumerate\(\)\s*$', hdr, re.S)
        m3 = re.match(r'for\s+(\w+)\s+in\s+&\s*([\w.]+)\s*$', hdr, re.S)
        m4 = re.match(r'for\s+(\w+)\s+in\s+(.+?)\s*$', hdr, re.S) if n in getattr(fs, 'forwhile_as', {}) else None
        if m4:
            x, v = m4.group(1), fs.forwhile_as[n]
            ed.add(kw_start, lbo, f'let mut verif_i_{x}: usize = 0; let verif_seq_{x} = {v}; while verif_i_{x} < verif_seq_{x}.len() ', ('rw', 'R11b'))
            ed.edits.append((lbo + 1, lbo + 1, f' let {x} = &verif_seq_{x}[verif_i_{x}];', ('rw', 'R11b')))
            ed.edits.append((lbc, lbc, f' verif_i_{x} += 1; ', ('rw', 'R11b')))
        elif m3 and not m1:
            x, v = m3.group(1), m3.group(2)
            ed.add(kw_start, lbo, f'let mut verif_i_{x}: usize = 0; let verif_seq_{x} = &{v}; while verif_i_{x} < verif_seq_{x}.len() ', ('rw', 'R11b'))
            ed.edits.append((lbo + 1, lbo + 1, f' let {x} = &verif_seq_{x}[verif_i_{x}];', ('rw', 'R11b')))
            ed.edits.append((lbc, lbc, f' verif_i_{x} += 1; ', ('rw', 'R11b')))
        elif m2:
            k, x, v = m2.group(1), m2.group(2), m2.group(3).strip()
            ed.add(kw_start, lbo, f'let mut {k} = 0; let verif_seq_{k} = {v}; while {k} < verif_seq_{k}.len() ', ('rw', 'R11b'))
            ed.edits.append((lbo + 1, lbo + 1, f' let {x} = &verif_seq_{k}[{k}];', ('rw', 'R11b')))
            ed.edits.append((lbc, lbc, f' {k} += 1; ', ('rw', 'R11b')))
        elif m1:
            v, a, b = m1.group(1), m1.group(2).strip(), m1.group(3).strip()
            ed.add(kw_start, lbo, f'let mut {v} = {a}; let verif_end_{v} = {b}; while {v} < verif_end_{v} ', ('rw', 'R11b'))
            ed.edits.append((lbc, lbc, f' {v} += 1; ', ('rw', 'R11b')))
        else:
            raise Lost(f'{fs.qual}: loop {n} header `{hdr.strip()}` not of a form R11b handles')
        log.append('R11b')
    by_loop = {}
    for c in fs.clauses:
        if c.loop is not None:
            by_loop.setdefault(c.loop, []).append(c)
    for n, cs in by_loop.items():
        if n >= len(loops):
            raise Lost(f'lost anchor: {fs.qual} has {len(loops)} loops, contract addresses loop {n}')
        kw_start, kw, lbo, lbc = loops[n]
        pieces = []
        order = ['loop-raw', 'loop-invariant_except_break', 'loop-invariant', 'loop-ensures', 'loop-decreases']
        for kind in order:
            ks = [c for c in cs if c.kind == kind]
            if not ks:
                continue
            if kind != 'loop-raw':
                pieces.append((f'\n        {kind[5:]}\n', ('gen',)))
            for c in ks:
                asm.clauses[c.cid] = c
                pieces.append((f'            {c.text}' + (',' if kind != 'loop-raw' else '') + '\n', ('clause', c.cid)))
        pieces.append(('        ', ('gen',)))
        for text, origin in pieces:
            ed.edits.append((lbo, lbo, text, origin))
        if canary and not fs.nocanary:
            ed.edits.append((lbo + 1, lbo + 1, f'\n    proof {{ assert(false); }} // CANARY {fs.qual}.loop{n}\n',
                             ('canary', f'{fs.qual}.loop{n}')))
    if len(loops) and canary:
        pass
    # every loop must carry a decreases (Verus insists); unaddressed loops are reported by Verus itself.
    pieces = ed.render()
    # header
    emit = fs.emit
    if emit is None:
        emit = ('impl ' + fs.impl.split(' for ')[-1]) if fs.impl != '-' else ''
    out.add_text(f'// ---- fn {fs.qual} extracted from {file_used}:{src.line_of(fn_kw)}-{src.line_of(bc)} sha256={fhash[:16]}', ('gen',))
    if emit:
        out.add_text(emit + ' {', ('gen',))
    for a in fs.attrs:
        out.add_text(a, ('attr', fs.qual))
    start_line = len(out.lines) + 1
    pieces = [('pub ', ('gen',))] + pieces
    out.add_pieces(pieces)
    end_line = len(out.lines)
    if emit:
        out.add_text('}', ('gen',))
    for ln in range(start_line, end_line + 1):
        o = out.origin[ln - 1]
        if o and o[0] == 'canary':
            asm.canary_lines[ln] = o[1]
    asm.fn_hash[fs.qual] = fhash
    asm.functions.append({
        'fn': fs.qual, 'file': 'regexml/src/' + file_used,
        'lines': [src.line_of(fn_kw), src.line_of(bc)], 'sha256': fhash,
        'props': fs.props, 'gen_lines': [start_line, end_line],
        'clauses': [c.cid for c in fs.clauses], 'rewrites': sorted(set(log)), 'loops': len(loops), 'attrs': list(fs.attrs),
    })
    for r in log:
        asm.rewrites.append((fs.qual, r))
