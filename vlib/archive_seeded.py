#!/usr/bin/env python3
"""archive a confirmed seeded change: archive_seeded.py <ID> <slug> <detected-by ...>"""
import json, os, shutil, sys
pid, slug = sys.argv[1], sys.argv[2]
detected = sys.argv[3:]
src = f'/tmp/mw_{pid}/out'
dst = f'/verif/seeded/{pid}-{slug}'
os.makedirs(dst, exist_ok=True)
shutil.copy(f'{src}/patch.diff', dst)
shutil.copy(f'{src}/demo_seeded.rs', dst)
meta = json.load(open(f'{src}/meta.json'))
conf = open(f'/tmp/confirm_{pid}.txt').read() if os.path.exists(f'/tmp/confirm_{pid}.txt') else ''
meta['confirmed_by_me'] = {
    'how': 'vlib/confirm_seeded.sh in a scratch worktree of /repo: full suite with the change (no FAILED), demo with the change (fails), demo without it (passes)',
    'transcript': conf,
}
meta['base_commit'] = os.popen('git -C /repo rev-parse --short HEAD').read().strip()
meta['checks_result'] = detected
json.dump(meta, open(f'{dst}/meta.json', 'w'), indent=1)
print('archived', dst)
