"""Rust-aware text scanner used by the extractor.

Not a parser: it classifies every byte of a source file as code / comment /
string / char literal so that item, brace and keyword searches never look
inside literals or comments, and finds items (impl blocks, fns, structs,
enums, consts) and loops by matching delimiters over the *code* bytes only.
"""
import re

CODE, COMMENT, STR, CHAR = 0, 1, 2, 3


class Lost(Exception):
    """An addressed item / loop / anchor could not be found (=> exit 2)."""


def classify(src):
    """Return a bytearray `k` with k[i] in {CODE, COMMENT, STR, CHAR}."""
    n = len(src)
    k = bytearray(n)
    i = 0
    while i < n:
        c = src[i]
        if c == '/' and i + 1 < n and src[i + 1] == '/':
            j = src.find('\n', i)
            if j < 0:
                j = n
            for t in range(i, j):
                k[t] = COMMENT
            i = j
        elif c == '/' and i + 1 < n and src[i + 1] == '*':
            depth, j = 1, i + 2
            while j < n and depth:
                if src.startswith('/*', j):
                    depth += 1
                    j += 2
                elif src.startswith('*/', j):
                    depth -= 1
                    j += 2
                else:
                    j += 1
            for t in range(i, j):
                k[t] = COMMENT
            i = j
        elif c == '"' or (c == 'b' and src.startswith('b"', i)):
            j = i + (2 if c == 'b' else 1)
            while j < n and src[j] != '"':
                j += 2 if src[j] == '\\' else 1
            j += 1
            for t in range(i, min(j, n)):
                k[t] = STR
            i = j
        elif c == 'r' and re.match(r'r#*"', src[i:i + 8]) and (i == 0 or not (src[i - 1].isalnum() or src[i - 1] == '_')):
            m = re.match(r'r(#*)"', src[i:])
            closer = '"' + m.group(1)
            j = src.find(closer, i + len(m.group(0)))
            j = n if j < 0 else j + len(closer)
            for t in range(i, j):
                k[t] = STR
            i = j
        elif c == "'":
            # char literal or lifetime
            m = re.match(r"'(\\u\{[0-9a-fA-F_]+\}|\\x[0-9a-fA-F]{2}|\\.|[^\\'])'", src[i:i + 14])
            if m:
                for t in range(i, i + len(m.group(0))):
                    k[t] = CHAR
                i += len(m.group(0))
            else:
                i += 1  # lifetime tick
        else:
            i += 1
    return k


OPEN = {'(': ')', '[': ']', '{': '}'}
CLOSE = {')', ']', '}'}


class Source:
    def __init__(self, path, text=None):
        self.path = path
        self.text = open(path, encoding='utf-8').read() if text is None else text
        self.kind = classify(self.text)
        # line starts
        self.ls = [0]
        for m in re.finditer('\n', self.text):
            self.ls.append(m.end())

    def line_of(self, pos):
        import bisect
        return bisect.bisect_right(self.ls, pos)

    def is_code(self, i):
        return self.kind[i] == CODE

    def match_close(self, i):
        """i at an opening delimiter (code); return index of its closer."""
        t = self.text
        stack = [OPEN[t[i]]]
        j = i + 1
        n = len(t)
        while j < n:
            if self.kind[j] == CODE:
                c = t[j]
                if c in OPEN:
                    stack.append(OPEN[c])
                elif c in CLOSE:
                    if c != stack[-1]:
                        raise Lost(f'{self.path}: unbalanced delimiter at {self.line_of(j)}')
                    stack.pop()
                    if not stack:
                        return j
            j += 1
        raise Lost(f'{self.path}: unclosed delimiter from line {self.line_of(i)}')

    def find_code(self, needle_re, start=0, end=None):
        """Iterate regex matches whose first char is CODE."""
        end = len(self.text) if end is None else end
        for m in re.compile(needle_re).finditer(self.text, start, end):
            if self.kind[m.start()] == CODE:
                yield m

    def next_code_char(self, ch, start, end=None):
        end = len(self.text) if end is None else end
        j = start
        while j < end:
            if self.kind[j] == CODE and self.text[j] == ch:
                return j
            j += 1
        return -1

    # ---------------------------------------------------------------- items
    def top_items(self, start=0, end=None, depth_base=0):
        """Yield (kind, header_text, hdr_start, body_open, body_close) for
        brace-bodied items at nesting depth 0 in [start, end)."""
        end = len(self.text) if end is None else end
        t = self.text
        j = start
        item_start = None
        while j < end:
            if self.kind[j] != CODE:
                j += 1
                continue
            c = t[j]
            if c.isspace():
                j += 1
                continue
            if item_start is None:
                item_start = j
            if c in '([':
                j = self.match_close(j) + 1
                continue
            if c == ';':
                yield ('stmt', t[item_start:j + 1], item_start, None, j)
                item_start = None
                j += 1
                continue
            if c == '{':
                close = self.match_close(j)
                yield ('block', t[item_start:j], item_start, j, close)
                item_start = None
                j = close + 1
                continue
            j += 1

    def find_impl(self, target):
        """target e.g. 'ReMatcher' or 'OperationControl for Bol' or 'Iterator for IntStepIterator'.
        Generic parameters / lifetimes in the header are ignored for matching."""
        want = re.sub(r'\s+', ' ', target.strip())
        for kind, hdr, hs, bo, bc in self.top_items():
            if kind != 'block':
                continue
            h = strip_attrs_comments(self, hs, bo)
            m = re.match(r'(?:unsafe\s+)?impl\b(.*)$', h, re.S)
            if not m:
                continue
            norm = normalize_impl_header(m.group(1))
            exact = re.sub(r'\s+', ' ', m.group(1)).strip()
            if norm == want or exact == want:
                return hs, bo, bc
        raise Lost(f'{self.path}: impl `{target}` not found')

    def find_trait(self, name):
        """the block of `trait NAME { ... }` (attributes, visibility and supertraits ignored)"""
        for kind, hdr, hs, bo, bc in self.top_items():
            if kind != 'block':
                continue
            h = strip_attrs_comments(self, hs, bo)
            m = re.match(r'(?:pub(?:\([^)]*\))?\s+)?(?:unsafe\s+)?trait\s+(\w+)', h)
            if m and m.group(1) == name:
                return hs, bo, bc
        raise Lost(f'{self.path}: trait `{name}` not found')

    def find_fn(self, name, start=0, end=None):
        """Find `fn name` as a direct child item of [start,end). Returns
        (item_start, sig_start(fn kw), body_open, body_close)."""
        for kind, hdr, hs, bo, bc in self.top_items(start, end):
            if kind != 'block':
                continue
            h = strip_attrs_comments(self, hs, bo)
            m = re.match(r'((?:pub(?:\([^)]*\))?\s+)?(?:const\s+)?(?:unsafe\s+)?)fn\s+(\w+)', h)
            if m and m.group(2) == name:
                # locate the `fn` keyword position in real text
                for mm in self.find_code(r'\bfn\s+' + re.escape(name) + r'\b', hs, bo):
                    return hs, mm.start(), bo, bc
        raise Lost(f'{self.path}: fn `{name}` not found')

    def find_type(self, name):
        """struct/enum definition: returns (start, end_exclusive) of the item
        text starting at the `struct`/`enum` keyword (attributes dropped)."""
        for kind, hdr, hs, bo, bc in self.top_items():
            h = strip_attrs_comments(self, hs, (bo if bo is not None else bc))
            m = re.match(r'(?:pub(?:\([^)]*\))?\s+)?(struct|enum)\s+(\w+)', h)
            if m and m.group(2) == name:
                for mm in self.find_code(r'\b(struct|enum)\s+' + re.escape(name) + r'\b', hs):
                    return mm.start(), bc + 1
        raise Lost(f'{self.path}: type `{name}` not found')

    def find_const(self, name):
        for kind, hdr, hs, bo, bc in self.top_items():
            if kind == 'stmt':
                h = strip_attrs_comments(self, hs, bc)
                m = re.match(r'(?:pub(?:\([^)]*\))?\s+)?const\s+(\w+)', h)
                if m and m.group(1) == name:
                    for mm in self.find_code(r'\bconst\s+' + re.escape(name) + r'\b', hs):
                        return mm.start(), bc + 1
        raise Lost(f'{self.path}: const `{name}` not found')

    # ---------------------------------------------------------------- loops
    def loops(self, bo, bc):
        """Loops inside the body (bo,bc) in source order.
        Returns list of (kw_start, kw, body_open, body_close)."""
        out = []
        for m in self.find_code(r'\b(while|for|loop)\b', bo + 1, bc):
            # `for` must be a loop: previous code token is not `impl ...` — inside
            # fn bodies we only need to exclude `for<` (HRTB).
            kw = m.group(1)
            after = self.text[m.end():m.end() + 1]
            if kw == 'for' and after == '<':
                continue
            # header ends at first `{` at delimiter depth 0
            j = m.end()
            while j < bc:
                if self.kind[j] == CODE:
                    c = self.text[j]
                    if c in '([':
                        j = self.match_close(j)
                    elif c == '{':
                        break
                j += 1
            if j >= bc:
                raise Lost(f'{self.path}: loop header without body at line {self.line_of(m.start())}')
            out.append((m.start(), kw, j, self.match_close(j)))
        return out


def strip_attrs_comments(src, a, b):
    """Code text of [a,b) with comments and leading #[..] attributes removed."""
    t = src.text
    out = []
    j = a
    while j < b:
        if src.kind[j] == COMMENT:
            j += 1
            continue
        out.append(t[j])
        j += 1
    s = ''.join(out).strip()
    # drop leading attributes
    while s.startswith('#'):
        depth = 0
        for idx, ch in enumerate(s):
            if ch == '[':
                depth += 1
            elif ch == ']':
                depth -= 1
                if depth == 0:
                    s = s[idx + 1:].lstrip()
                    break
        else:
            break
    return s


def normalize_impl_header(h):
    """'<'a> Iterator for ChoiceIterator<'_>' -> 'Iterator for ChoiceIterator'."""
    h = h.strip()
    # remove leading generics
    if h.startswith('<'):
        depth = 0
        for idx, ch in enumerate(h):
            if ch == '<':
                depth += 1
            elif ch == '>':
                depth -= 1
                if depth == 0:
                    h = h[idx + 1:]
                    break
    # remove all <...> groups
    out, depth = [], 0
    for ch in h:
        if ch == '<':
            depth += 1
        elif ch == '>':
            depth -= 1
        elif depth == 0:
            out.append(ch)
    h = ''.join(out)
    h = re.sub(r'\bwhere\b.*$', '', h, flags=re.S)
    return re.sub(r'\s+', ' ', h).strip()
