#!/bin/bash
# usage: try_patch_all.sh <name> <patch.diff> — every claimed check (quick tier, in parallel) against a scratch copy of /repo's sources with the patch applied
set -u
N=$1; P=$2
W=$(mktemp -d /tmp/trypatch_XXXXXX)
mkdir -p $W/regexml && cp -r /repo/regexml/src $W/regexml/src
( cd $W && patch -s -p1 < $P ) || { echo "PATCH DOES NOT APPLY"; rm -rf $W; exit 3; }
cd /verif
ids=$(python3 -c "import json;print(' '.join(c['property_id'] for c in json.load(open('MANIFEST.json'))['checks']))")
rm -rf build/tp_$N; mkdir -p build/tp_$N
for p in $ids; do (VERIF_REPO=$W VERIF_EVIDENCE_DIR=build/tp_ev_$N ./check $p > build/tp_$N/$p.txt 2>&1; echo "$p rc=$?" >> build/tp_$N/rc.txt) & done; wait
rm -rf $W build/tp_ev_$N
echo "== $N"; sort build/tp_$N/rc.txt | tr '\n' ' '; echo
grep -h "VIOLATION" build/tp_$N/*.txt | cut -c1-260
grep -h "UNDECIDED property" build/tp_$N/*.txt | sed 's/reason=.*unit /unit /' | cut -c1-120 | sort | uniq -c | sort -rn | head -5
