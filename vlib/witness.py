"""Bounded differential stand-in and failing-input (witness) search through the public API.

NOT the deciding technique of /verif (that is the Verus run). It is used in two places only:
  * when a unit of a property is UNDECIDED (lost anchor / construct outside the verifier's reach after a
    rewording of the code), a bounded differential check of the public API stands in for that unit — labelled
    `bounded` in the evidence and never counted as proved;
  * when the verifier refutes a named obligation, the same search looks for a failing input so that the replay
    file can carry one (otherwise the VIOLATION line ends with no-failing-input-found).

Oracle: Python's `re` (a backtracking, ordered-choice engine) on a fragment where XPath 3.1 / XSD and Perl-style
semantics coincide (ASCII literals, '.', classes with ranges / negation / subtraction, groups, alternation,
greedy and reluctant quantifiers, ^ $ under flag m or not, back-references to groups that certainly
participated, flags i m s x q), plus metamorphic relations that need no oracle (two spellings of one pattern,
analyze vs replace_all vs tokenize). Bounds: see BOUNDS.
"""
import os
import random
import re
import shutil
import subprocess
import tempfile

VERIF = os.path.dirname(os.path.dirname(os.path.abspath(__file__)))
BOUNDS = {
    'quick': {'patterns': 700, 'inputs_per_pattern': 26, 'max_input_len': 5},
    'thorough': {'patterns': 4000, 'inputs_per_pattern': 40, 'max_input_len': 6},
}
L, R = '<', '>'          # markers around $0 in the replacement; never part of an input


# ------------------------------------------------------------------ pattern ASTs
class N:
    def __init__(self, k, *a):
        self.k, self.a = k, a


def lit(c): return N('lit', c)
def cls(items, neg=False, sub=None): return N('cls', items, neg, sub)
def grp(n, cap): return N('grp', n, cap)
def alt(ns): return N('alt', ns)
def seq(ns): return N('seq', ns)
def rep(n, lo, hi, lazy): return N('rep', n, lo, hi, lazy)


META = set('\\|.?*+(){}[]^$-')


def esc_x(c):
    if c == '\n':
        return '\\n'
    return '\\' + c if c in META else c


def cls_body(items):
    out = ''
    for it in items:
        if isinstance(it, tuple):
            out += esc_x(it[0]) + '-' + esc_x(it[1])
        else:
            out += esc_x(it)
    return out


def to_x(n):
    k = n.k
    if k == 'lit':
        return esc_x(n.a[0])
    if k == 'dot':
        return '.'
    if k == 'bol':
        return '^'
    if k == 'eol':
        return '$'
    if k == 'bref':
        return '\\%d' % n.a[0]
    if k == 'cls':
        items, neg, sub = n.a
        return '[' + ('^' if neg else '') + cls_body(items) + ('-[' + cls_body(sub) + ']' if sub else '') + ']'
    if k == 'grp':
        return ('(' if n.a[1] else '(?:') + to_x(n.a[0]) + ')'
    if k == 'alt':
        return '|'.join(to_x(x) for x in n.a[0])
    if k == 'seq':
        return ''.join(to_x(x) if x.k != 'alt' else '(?:' + to_x(x) + ')' for x in n.a[0])
    if k == 'rep':
        b, lo, hi, lazy = n.a
        body = to_x(b)
        if b.k in ('seq', 'alt', 'rep') or (b.k == 'lit' and False):
            body = '(?:' + body + ')'
        if (lo, hi) == (0, 1):
            q = '?'
        elif (lo, hi) == (0, None):
            q = '*'
        elif (lo, hi) == (1, None):
            q = '+'
        elif hi is None:
            q = '{%d,}' % lo
        elif lo == hi:
            q = '{%d}' % lo
        else:
            q = '{%d,%d}' % (lo, hi)
        return body + q + ('?' if lazy else '')
    raise ValueError(k)


def esc_p(c):
    return re.escape(c)


def pcls_body(items):
    out = ''
    for it in items:
        if isinstance(it, tuple):
            out += esc_p(it[0]) + '-' + esc_p(it[1])
        else:
            out += esc_p(it)
    return out


def to_p(n, multiline):
    k = n.k
    if k == 'lit':
        return esc_p(n.a[0])
    if k == 'dot':
        return '.'
    # property C12: without flag m, ^ matches only at offset 0 and $ only at the end of the input; with m, ^ additionally
    # matches after every newline that is not the last character of the input and $ additionally before every newline
    if k == 'bol':
        return '(?:\\A|(?<=\\n)(?!\\Z))' if multiline else '\\A'
    if k == 'eol':
        return '(?:(?=\\n)|\\Z)' if multiline else '\\Z'
    if k == 'bref':
        return '(?:\\%d)' % n.a[0]
    if k == 'cls':
        items, neg, sub = n.a
        base = '[' + ('^' if neg else '') + pcls_body(items) + ']'
        return ('(?![' + pcls_body(sub) + '])' + base) if sub else base
    if k == 'grp':
        return ('(' if n.a[1] else '(?:') + to_p(n.a[0], multiline) + ')'
    if k == 'alt':
        return '|'.join(to_p(x, multiline) for x in n.a[0])
    if k == 'seq':
        return ''.join(to_p(x, multiline) if x.k != 'alt' else '(?:' + to_p(x, multiline) + ')' for x in n.a[0])
    if k == 'rep':
        b, lo, hi, lazy = n.a
        body = '(?:' + to_p(b, multiline) + ')'
        q = '{%d,%s}' % (lo, '' if hi is None else hi)
        return body + q + ('?' if lazy else '')
    raise ValueError(k)


def nullable(n):
    k = n.k
    if k in ('lit', 'dot', 'cls'):
        return False
    if k in ('bol', 'eol', 'bref'):
        return True
    if k == 'grp':
        return nullable(n.a[0])
    if k == 'alt':
        return any(nullable(x) for x in n.a[0])
    if k == 'seq':
        return all(nullable(x) for x in n.a[0])
    if k == 'rep':
        return n.a[1] == 0 or nullable(n.a[0])


def walk(n):
    yield n
    k = n.k
    if k == 'grp':
        yield from walk(n.a[0])
    elif k in ('alt', 'seq'):
        for x in n.a[0]:
            yield from walk(x)
    elif k == 'rep':
        yield from walk(n.a[0])


def has(n, kind):
    return any(x.k == kind for x in walk(n))


def has_lit(n, ch):
    return any(x.k == 'lit' and x.a[0] == ch for x in walk(n))


def nullable_rep_body(n):
    return any(x.k == 'rep' and nullable(x.a[0]) for x in walk(n))


def fixed_len(n):
    """length of every match of n if that is one fixed number, else None"""
    k = n.k
    if k in ('lit', 'dot', 'cls'):
        return 1
    if k in ('bol', 'eol'):
        return 0
    if k == 'bref':
        return None
    if k == 'grp':
        return fixed_len(n.a[0])
    if k == 'seq':
        t = 0
        for x in n.a[0]:
            f = fixed_len(x)
            if f is None:
                return None
            t += f
        return t
    if k == 'alt':
        fs = {fixed_len(x) for x in n.a[0]}
        return fs.pop() if len(fs) == 1 and None not in fs else None
    if k == 'rep':
        f = fixed_len(n.a[0])
        return f * n.a[1] if f is not None and n.a[1] == n.a[2] else None


def n_paths(n, cap=99):
    """an upper bound on the number of results an iterator for n can yield from one position (cap = "many")"""
    k = n.k
    if k in ('lit', 'dot', 'cls', 'bol', 'eol', 'bref'):
        return 1
    if k == 'grp':
        return n_paths(n.a[0], cap)
    if k == 'alt':
        return min(cap, sum(n_paths(x, cap) for x in n.a[0]))
    if k == 'seq':
        t = 1
        for x in n.a[0]:
            t = min(cap, t * n_paths(x, cap))
        return t
    if k == 'rep':
        b, lo, hi, _lazy = n.a
        if hi is None:
            return cap
        pb, t = n_paths(b, cap), 0
        for j in range(lo, hi + 1):
            t = min(cap, t + min(cap, pb ** j))
        return t
    return cap


def head_reps(n):
    """the quantified terms that every match attempt reaches at most once, at the position where the attempt starts: the
    first term of the pattern, through groups and alternatives (not inside another quantified term)"""
    out = set()

    def visit(x):
        if x.k == 'rep':
            out.add(id(x))
        elif x.k == 'grp':
            visit(x.a[0])
        elif x.k == 'alt':
            for y in x.a[0]:
                visit(y)
        elif x.k == 'seq' and x.a[0]:
            visit(x.a[0][0])
    visit(n)
    return out


def fragile_shape(n):
    """pattern shapes on which the recorded, unrepaired findings of known_findings.txt can manifest; they are not compared
    with the oracle. Each condition is the precondition of one mechanism:
    (1) the progress guard ends a repeat's results after one position was produced five times in a row: a quantifier over
        a body that can match without consuming input, whose iterator can yield five results or more;
    (2) the depth bound counts repetitions that consume nothing: a body that matches the empty string only at an anchor
        (the compiler lowers the minimum to 0 for bodies that match it anywhere), repeated twice or more;
    (3) the per-matcher memo of zero-length matches suppresses the zero-repetition alternative when the same greedy
        repeat with minimum 0 over a variable-length body is reached again at the same position: every such repeat that is
        not the head of the pattern (the head is reached once per attempt, at the attempt's own start)."""
    heads = head_reps(n)
    for x in walk(n):
        if x.k != 'rep':
            continue
        b, lo, hi, lazy = x.a
        nb = nullable(b)
        if nb and n_paths(x) >= 5:
            return True
        if nb and (has(b, 'bol') or has(b, 'eol')) and (hi is None or hi >= 2):
            return True
        if not lazy and (lo == 0 or nb) and (fixed_len(b) is None or nb) and id(x) not in heads:
            return True
    return False


def brefs_into_reps(n):
    """a back-reference to a group that stands under a quantifier"""
    under = set()
    k = 0
    def visit(x, inrep):
        nonlocal k
        if x.k == 'grp':
            if x.a[1]:
                k += 1
                if inrep:
                    under.add(k)
            visit(x.a[0], inrep)
        elif x.k in ('alt', 'seq'):
            for y in x.a[0]:
                visit(y, inrep)
        elif x.k == 'rep':
            visit(x.a[0], True)
    visit(n, False)
    return any(x.k == 'bref' and x.a[0] in under for x in walk(n))


def quantified_caps(n):
    """a capturing group stands under a quantifier (which repetition's text it holds after backtracking is the recorded
    finding C19/C03)"""
    return any(x.k == 'rep' and ncaps(x.a[0]) > 0 for x in walk(n))


class RefMatch:
    """reference matcher over the pattern AST: ordered choice, greedy / reluctant repetition, depth first - the semantics
    the properties state. It is used for one question only: did the *first* path the search tries succeed, with no
    term asked for a second result after it had delivered one? On such a match nothing is ever given back, so what a
    quantified group holds cannot depend on how abandoned attempts are undone (recorded findings C19/C03), and the group
    texts can be compared with the oracle."""

    def __init__(self, node, flags, inp):
        self.inp, self.flags, self.resumed, self.second = inp, flags, 0, 0
        self.pf = py_flags(flags)
        self.ml = 'm' in flags
        self.node = node
        self._one = {}

    def one(self, x):
        r = self._one.get(id(x))
        if r is None:
            r = self._one[id(x)] = re.compile(to_p(x, self.ml), self.pf)
        return r

    def track(self, g):
        produced = False
        while True:
            if produced:
                self.resumed += 1      # the consumer came back for another result
            try:
                v = next(g)
            except StopIteration:
                return
            if produced:
                self.second += 1       # ... and got one: an alternative was taken, or a repetition given back
            produced = True
            yield v

    def m(self, x, pos, caps):
        return self.track(self._m(x, pos, caps))

    def _m(self, x, pos, caps):
        k = x.k
        if k in ('lit', 'dot', 'cls'):
            mm = self.one(x).match(self.inp, pos)
            if mm is not None and mm.end() == pos + 1:
                yield pos + 1, caps
        elif k in ('bol', 'eol'):
            if self.one(x).match(self.inp, pos) is not None:
                yield pos, caps
        elif k == 'bref':
            t = caps.get(x.a[0])
            if t is None:
                yield pos, caps
            else:
                mm = re.compile(re.escape(t), self.pf).match(self.inp, pos)
                if mm is not None:
                    yield mm.end(), caps
        elif k == 'grp':
            for (p, c) in self.m(x.a[0], pos, caps):
                if x.a[1]:
                    c = dict(c)
                    c[x.nr] = self.inp[pos:p]
                yield p, c
        elif k == 'alt':
            for br in x.a[0]:
                yield from self.m(br, pos, caps)
        elif k == 'seq':
            yield from self.seq(x.a[0], 0, pos, caps)
        elif k == 'rep':
            yield from self.rep(x, pos, caps, 0)

    def seq(self, items, i, pos, caps):
        if i == len(items):
            yield pos, caps
            return
        for (p, c) in self.m(items[i], pos, caps):
            yield from self.seq(items, i + 1, p, c)

    def rep(self, x, pos, caps, count):
        b, lo, hi, lazy = x.a
        more = hi is None or count < hi
        if lazy and count >= lo:
            yield pos, caps
        if more:
            for (p, c) in self.m(b, pos, caps):
                if p == pos and count >= lo:
                    continue           # a repetition that consumes nothing adds nothing once the minimum is reached
                yield from self.rep(x, p, c, count + 1)
        if not lazy and count >= lo:
            yield pos, caps

    def first_path(self, start):
        """(end, captures, strict) if the first result from `start` was reached without any term delivering a second
        result (no alternative taken after a first choice had matched, no repetition given back), else None; strict: no
        term was even asked for one (nothing that had matched was abandoned)"""
        self.resumed = self.second = 0
        for (p, c) in self.m(self.node, start, {}):
            return (p, c, self.resumed == 0) if self.second == 0 else None
        return None


def number_groups(n):
    """capturing groups are numbered by the order of their opening parentheses"""
    k = 0
    for x in walk(n):
        if x.k == 'grp' and x.a[1]:
            k += 1
            x.nr = k


def ncaps(n):
    return sum(1 for x in walk(n) if x.k == 'grp' and x.a[1])


# ------------------------------------------------------------------ generation
QUANTS = [(0, 1), (0, None), (1, None), (2, 2), (1, 2), (2, None), (0, 2), (2, 3)]


def gen_atom(rng, alphabet, depth, st):
    r = rng.random()
    if r < 0.45:
        return lit(rng.choice(alphabet))
    if r < 0.52:
        return N('dot')
    if r < 0.70:
        kind = rng.random()
        a = sorted(set(rng.sample(alphabet, min(len(alphabet), rng.randint(1, 2)))))
        if kind < 0.5:
            return cls(a)
        if kind < 0.75:
            return cls(a, neg=True)
        if kind < 0.9:
            return cls([('a', 'c')], sub=[rng.choice('abc')])
        return cls([('a', 'c')], neg=True)
    if r < 0.76 and st['anchors']:
        return N('bol') if rng.random() < 0.5 else N('eol')
    if r < 0.80 and st['open_caps']:
        return N('bref', rng.choice(st['open_caps']))
    if depth <= 0:
        return lit(rng.choice(alphabet))
    cap = rng.random() < 0.5
    if cap:
        st['ncap'] += 1
        nr = st['ncap']
    inner = gen_alt(rng, alphabet, depth - 1, dict(st, open_caps=list(st['open_caps']), toplevel=False), st)
    g = grp(inner, cap)
    if cap:
        g.nr = nr
    if cap and st.get('toplevel', False) and st['certain']:
        st['open_caps'].append(nr)
    return g


def gen_piece(rng, alphabet, depth, st):
    certain = st['certain']
    quant = rng.random() < 0.45
    lo_hi = rng.choice(QUANTS) if quant else None
    if quant and lo_hi[0] == 0:
        st['certain'] = False
    a = gen_atom(rng, alphabet, depth, st)
    st['certain'] = certain
    if not quant or a.k in ('bol', 'eol'):
        return a
    if a.k == 'grp' and a.a[1] and getattr(a, 'nr', None) in st['open_caps']:
        # a quantified group is not back-referenced: which iteration's text a back-reference sees after the engine has
        # backtracked into the repetition is the recorded finding C19/C03 (known_findings.txt), outside this oracle
        st['open_caps'].remove(a.nr)
    return rep(a, lo_hi[0], lo_hi[1], rng.random() < 0.3)


def gen_seq(rng, alphabet, depth, st):
    n = rng.choice([1, 2, 2, 3, 3, 4])
    return seq([gen_piece(rng, alphabet, depth, st) for _ in range(n)])


def gen_alt(rng, alphabet, depth, st, outer=None):
    counter = outer if outer is not None else st
    if rng.random() < 0.3:
        branches = []
        for _ in range(rng.choice([2, 2, 3])):
            sub = dict(st, open_caps=list(st['open_caps']), certain=False, toplevel=False)
            sub['ncap'] = counter['ncap']
            branches.append(gen_seq(rng, alphabet, depth, sub))
            counter['ncap'] = sub['ncap']
        return alt(branches)
    sub = st if outer is None else dict(st)
    if outer is not None:
        sub['ncap'] = counter['ncap']
    s = gen_seq(rng, alphabet, depth, sub)
    if outer is not None:
        counter['ncap'] = sub['ncap']
    return s


def gen_pattern(rng, alphabet, anchors):
    st = {'ncap': 0, 'open_caps': [], 'certain': True, 'anchors': anchors, 'toplevel': True}
    return gen_alt(rng, alphabet, 2, st)


def shaped_patterns():
    """shapes that trigger the engine's shortcuts (C01/C08 quantifier text): leading literal with self-overlap,
    leading class, X*Y with related / unrelated first sets, fixed-count repeats, bounded repeats of alternations"""
    out = []
    a, b, c = lit('a'), lit('b'), lit('c')
    out.append(seq([a, a, cls(['b', 'c'])]))
    out.append(seq([a, b, a, grp(alt([seq([c]), seq([b])]), False)]))
    out.append(seq([rep(a, 0, None, False), cls(['a'], neg=True)]))
    out.append(seq([rep(a, 1, None, False), cls(['b'], neg=True)]))
    out.append(seq([rep(a, 0, None, False), grp(alt([seq([b]), seq([rep(grp(alt([seq([c, c]), seq([b])]), False), 0, None, False)])]), False), a]))
    out.append(seq([N('bol'), rep(grp(alt([seq([a]), seq([a, b])]), False), 0, 2, False), c]))
    out.append(seq([N('bol'), rep(grp(alt([seq([a, b]), seq([a]), seq([b, c])]), False), 0, 2, False), N('eol')]))
    out.append(seq([N('bol'), rep(grp(alt([seq([a, b]), seq([c, c])]), False), 2, 3, False), grp(alt([seq([a, b]), seq([c])]), False), N('eol')]))
    out.append(seq([rep(grp(N('bol'), True), 1, None, True), a]))
    out.append(seq([rep(grp(alt([seq([a]), seq([b, b])]), False), 1, None, True), c]))
    out.append(seq([rep(grp(alt([seq([grp(seq([a]), True)]), seq([grp(seq([b]), True)])]), False), 1, None, False)]))
    out.append(seq([a, grp(rep(b, 0, 1, False), True), c]))
    out.append(seq([grp(seq([rep(a, 0, None, False)]), True), N('bref', 1)]))
    out.append(seq([grp(seq([cls([('a', 'c')])]), True), N('bref', 1)]))
    out.append(seq([cls([('a', 'c')], sub=['b']), rep(cls(['a'], neg=True), 1, None, False)]))
    out.append(seq([rep(cls(['a', 'b']), 0, None, False), a, N('eol')]))
    out.append(seq([rep(lit('\n'), 0, None, False), N('eol'), lit('\n'), b]))
    out.append(seq([rep(a, 0, None, False), N('bol'), a]))
    x, y = lit('x'), lit('y')
    out.append(seq([rep(x, 0, None, False), cls(['a'], neg=True)]))
    out.append(seq([rep(x, 1, None, False), cls(['a'], neg=True)]))
    out.append(seq([rep(x, 1, None, True), cls(['a'], neg=True), y]))
    out.append(seq([rep(y, 0, None, False), N('dot')]))
    out.append(seq([rep(cls(['x', 'y']), 0, 2, False), cls(['a', 'b'], neg=True), y]))
    out.append(seq([x, x, cls(['x', 'y']), y]))
    out.append(seq([x, y, x, grp(alt([seq([y]), seq([a])]), False)]))
    return out


def words(alphabet, max_len):
    out, frontier = [''], ['']
    for _l in range(max_len):
        frontier = [w + ch for w in frontier for ch in alphabet]
        out += frontier
    return out


def families():
    """systematic families: every combination of a small pool, every input up to a length bound. Each entry:
    (node, flags, alphabet, max input length)"""
    out = []
    a, b, c, x = lit('a'), lit('b'), lit('c'), lit('x')
    nc = lambda *ns: grp(alt([seq(list(n)) for n in ns]), False)
    # C: X{q} Y - a quantified term next to a term with a related / unrelated first set
    pool_x = [a, cls(['a', 'b']), cls([('a', 'c')]), cls(['a'], neg=True), N('dot'), nc([a, b]), nc([a], [a, b])]
    pool_y = [a, b, cls(['b', 'c']), cls(['a', 'c'], neg=True), cls([('a', 'c')], sub=['b']), nc([a], [b, c]), nc([b, c], [b]), grp(seq([a]), True)]
    quants = [(0, None, False), (1, None, False), (0, 1, False), (1, 2, False), (0, None, True), (1, None, True)]
    for X in pool_x:
        for (lo, hi, lazy) in quants:
            for Y in pool_y:
                out.append((seq([rep(X, lo, hi, lazy), Y]), '', ['a', 'b', 'c'], 4))
    # X{q} (?:Y z?)+ c : a quantified term before a repeated group whose body starts with a mandatory, overlapping term
    for X in (a, cls(['a', 'b'])):
        for (lo, hi, lazy) in ((0, None, False), (1, None, False), (0, None, True)):
            for body in ([a, rep(b, 0, 1, False)], [cls(['a', 'b']), rep(c, 0, 1, False)], [a, b]):
                out.append((seq([rep(X, lo, hi, lazy), rep(grp(seq(list(body)), False), 1, None, False), c]), '', ['a', 'b', 'c'], 5))
    # alternation: branch order, single characters after longer branches
    for br in ([[a], [b, c], [b]], [[a, b], [a]], [[a], [a, b]], [[b], [b, c], [a]], [[a, b, c], [a, b], [a]]):
        out.append((alt([seq(list(x_)) for x_ in br]), '', ['a', 'b', 'c'], 4))
        out.append((seq([grp(alt([seq(list(x_)) for x_ in br]), True), c]), '', ['a', 'b', 'c'], 4))
    # D: anchors with and without flag m
    bol, eol, nl = N('bol'), N('eol'), lit('\n')
    anch = [seq([bol, a]), seq([bol, rep(a, 1, None, False)]), seq([a, eol]), seq([bol, a, eol]), seq([bol, b]),
            seq([rep(grp(seq([bol, a]), True), 0, 1, False), b]), seq([nc([bol, a], [b]), c]), seq([a, nc([eol], [b])]),
            seq([nc([bol], [a]), b]), seq([rep(a, 0, None, False), bol, b]), seq([rep(nl, 0, None, False), eol, nl, b]),
            seq([bol, N('dot'), eol]), seq([a, rep(N('dot'), 0, None, False), eol]), seq([bol, eol])]
    for n in anch:
        for fl in ('', 'm', 'ms', 's'):
            out.append((n, fl, ['a', 'b', '\n'], 5))
    # F: back-references, with and without flag i
    g = lambda *ns: grp(seq(list(ns)), True)
    brs = [seq([g(a, b), N('bref', 1)]), seq([g(a, N('dot')), N('bref', 1)]), seq([g(a), g(b), N('bref', 2), N('bref', 1)]),
           seq([g(nc([a], [b])), N('bref', 1)]), seq([g(a, b), c, N('bref', 1)]), seq([g(rep(a, 1, None, False)), b, N('bref', 1)])]
    for n in brs:
        out.append((n, '', ['a', 'b', 'c'], 5))
        out.append((n, 'i', ['a', 'b', 'A', 'B'], 4))
    # groups in alternations and repetitions, followed by later groups (capture bookkeeping across failed attempts)
    z, xx, y = lit('z'), lit('x'), lit('y')
    grp_pats = [seq([rep(g(a), 0, None, False), b, g(c)]), seq([rep(nc([g(a, rep(b, 0, 1, False))], [z]), 0, None, False), c, g(lit('d'))]),
                alt([seq([xx, nc([g(a)], [b]), y]), seq([xx, a, g(z)])]), seq([xx, nc([g(a)], [g(b)]), y]), nc([g(a), b], [a, g(c)]),
                seq([nc([g(a), xx], []), g(a), y]) if False else seq([rep(grp(seq([g(a), xx]), False), 0, 1, False), g(a), y]),
                seq([rep(grp(seq([xx, nc([g(a)], [b]), y]), False), 1, None, False), xx, a, z]),
                seq([nc([g(a)], [a, b]), c]), seq([nc([g(a), b], [a, b, b]), g(c)]), seq([nc([g(a), g(b)], [a, b, b]), c])]
    # a sequence that starts with a greedy quantified group, fails as a whole, and the match goes another way
    out.append((seq([N('bol'), rep(nc([rep(g(a), 0, None, False), xx], [a, b]), 1, None, False), N('eol')]), '', ['a', 'b', 'x'], 5))
    out.append((seq([N('bol'), nc([rep(g(a), 0, None, False), xx], [rep(a, 0, None, False), y]), N('eol')]), '', ['a', 'x', 'y'], 5))
    out.append((seq([nc([rep(g(a, b), 1, None, False), c], [a, rep(b, 0, None, False)]), g(c)]), '', ['a', 'b', 'c'], 5))
    for n in grp_pats:
        out.append((n, '', ['a', 'x', 'y', 'z'] if has_lit(n, 'x') else ['a', 'b', 'c', 'd'] if has_lit(n, 'd') else ['a', 'b', 'c'], 5 if not has_lit(n, 'x') else 4))
    # negated group with subtraction (C09): [^G-[S]] = (not G) minus S
    for n in (cls(['a'], neg=True, sub=['b']), cls([('a', 'b')], neg=True, sub=['c']), cls(['b'], neg=True, sub=[('a', 'c')])):
        out.append((n, '', ['a', 'b', 'c', 'd'], 2))
        out.append((seq([N('bol'), rep(n, 1, None, False), N('eol')]), '', ['a', 'b', 'c', 'd'], 3))
    # a start anchor followed by groups that hold sequences (positional preconditions of nested terms)
    d = lit('d')
    for n in (seq([bol, a, g(rep(b, 1, None, False), c)]), seq([bol, rep(a, 0, None, False), g(rep(b, 1, None, False), c)]),
              seq([bol, rep(a, 1, None, False), g(b, c), eol]), seq([bol, a, rep(grp(seq([rep(b, 1, None, False), c]), False), 1, None, False), d]),
              seq([bol, rep(cls([('a', 'b')]), 1, None, False), g(c, rep(d, 1, None, False)), eol])):
        for fl in ('', 'm', 's'):
            out.append((n, fl, ['a', 'b', 'c', 'd'], 5))
    # a repeat first, then an upper-case literal, under flag i (literal preconditions of the search loop)
    A = lit('A')
    for X in (b, cls(['a', 'b']), cls([('0', '1')])):
        for (lo, hi) in ((0, None), (1, None), (1, 2)):
            for Y in (A, seq([lit('K'), lit('g')]), nc([A], [c])):
                out.append((seq([rep(X, lo, hi, False), Y]), 'i', ['a', 'A', 'b', 'k', 'G', '0'] if Y.k == 'seq' else ['a', 'A', 'b'], 3 if Y.k == 'seq' else 4))
    # a pattern that starts with a repeat, searched repeatedly along the input (every later search starts mid-input)
    for n in (rep(b, 1, None, False), rep(cls(['b', 'c']), 1, None, False), seq([rep(b, 1, None, False), a]), seq([grp(rep(b, 2, 2, False), True), a])):
        out.append((n, '', ['a', 'b'], 6))
    # an optional group at the head of the pattern whose body holds an anchor and optional terms only: the group must stay
    # optional (the static "matches the empty string anywhere / at the start / at the end" answers differ)
    for body in ([bol, rep(a, 0, 1, False)], [rep(a, 0, 1, False), eol], [bol, rep(a, 0, 1, False), eol], [bol, rep(cls(['a', 'b']), 0, 1, False)]):
        for cap in (False, True):
            for Y in (b, c, seq([b, c])):
                for fl in ('', 'm'):
                    out.append((seq([rep(grp(seq(list(body)), cap), 0, 1, False), Y]), fl, ['a', 'b', 'c', '\n'] if fl else ['a', 'b', 'c'], 4))
    # a counted repetition of a body with several ways / lengths to match, before a term only some of them leave room for;
    # also after ^ and inside a group (every repetition must be able to take any of its ways)
    amb = [nc([a], [a, b]), nc([a, b], [a]), rep(a, 1, 2, False), grp(seq([a, rep(b, 0, 1, False)]), False), nc([a], [b, c], [a, b]), grp(seq([a, b, rep(c, 0, 1, False)]), False)]
    for X in amb:
        for (lo, hi) in ((2, 2), (3, 3), (2, 3), (2, None)):
            for Y in (c, eol, a, nc([c], [b])):
                out.append((seq([rep(X, lo, hi, False), Y]), '', ['a', 'b', 'c'], 5))
                out.append((seq([bol, rep(X, lo, hi, False), Y]), '', ['a', 'b', 'c'], 5))
            out.append((seq([bol, rep(X, lo, hi, False)]), '', ['a', 'b', 'c'], 5))
            out.append((grp(seq([bol, rep(X, lo, hi, False)]), True), '', ['a', 'b', 'c'], 5))
    # a repetition whose body ends in an optional group, before a term that makes it give repetitions back
    for X in (N('dot'), cls(['a', 'b']), a):
        for G in (g(b, c), g(b), g(b, c, lit('d'))):
            for (lo, hi) in ((0, None), (1, None), (0, 2)):
                for Y in (c, b):
                    out.append((seq([rep(grp(seq([X, rep(G, 0, 1, False)]), False), lo, hi, False), Y]), '', ['a', 'b', 'c', 'd'] if has_lit(G, 'd') else ['a', 'b', 'c'], 4 if has_lit(G, 'd') else 5))
    # groups under a counted or reluctant quantifier, different groups taking part in different repetitions
    for body in (nc([g(a)], [g(b)]), nc([g(a)], [b]), g(nc([a], [b])), grp(seq([g(nc([a], [b])), c]), False), grp(seq([xx, g(nc([a], [b])), c]), False)):
        for (lo, hi, lazy) in ((2, 2, True), (2, 2, False), (2, None, True), (1, None, False), (1, None, True), (2, 3, True), (0, None, False)):
            for tail in ([c], [], [lit('d')]):
                al = ['a', 'b', 'c', 'x'] if has_lit(body, 'x') else ['a', 'b', 'c', 'd'] if tail and tail[0].a[0] == 'd' else ['a', 'b', 'c']
                out.append((seq([rep(body, lo, hi, lazy)] + list(tail)), '', al, 4 if len(al) > 3 else 5))
    # a counted quantifier over a term that matches the empty string anywhere: the regex matches the empty string
    for X in (g(rep(a, 0, 1, False)), grp(seq([rep(a, 0, None, False)]), False), g(nc([a], [])), rep(a, 0, 1, False)):
        for (lo, hi) in ((2, 2), (2, 3), (2, None), (3, 3)):
            out.append((rep(X, lo, hi, False), '', ['a', 'b'], 3))
            out.append((seq([b, rep(X, lo, hi, False)]), '', ['a', 'b'], 3))
    # r{0}, r{0,0}: the group still counts
    out.append((seq([rep(g(a), 0, 0, False), g(b)]), '', ['a', 'b', 'c'], 4))
    out.append((seq([g(a), rep(g(b), 0, 0, False), g(c)]), '', ['a', 'b', 'c'], 4))
    return out


BOUNDARY_CHARS = ['\x01', ' ', '~', '\x7f', '\x80', '\xff', '\u0100', '\u212a', '\ud7ff', '\ue000', '\ufffd', '\U00010000', '\U0010ffff']


def class_family():
    """E: character classes against single characters at the boundaries of the code space"""
    pats = [cls(['a']), cls(['a'], neg=True), cls([('a', 'c')]), cls([('a', 'c')], neg=True), N('dot'), cls(['\x7f']),
            cls([('\x01', '\x7f')]), cls([('\x80', '\U0010ffff')]), cls([('a', '\xff')], sub=['\x7f']), cls(['\x7f'], neg=True)]
    out = []
    for n in pats:
        for fl in ('', 's'):
            out.append((n, fl, [ch for ch in BOUNDARY_CHARS] + ['a' + ch for ch in BOUNDARY_CHARS] + ['a', '']))
    return out


def gen_inputs(rng, alphabet, n, max_len):
    out = {''}
    for ln in range(1, 4):
        if len(alphabet) ** ln <= 40:
            def rec(p):
                if len(p) == ln:
                    out.add(p)
                    return
                for ch in alphabet[:3]:
                    rec(p + ch)
            rec('')
    res = sorted(out)
    rng.shuffle(res)
    res = res[:max(0, n // 2)]
    while len(res) < n:
        ln = rng.randint(1, max_len)
        res.append(''.join(rng.choice(alphabet) for _ in range(ln)))
    return res


# ------------------------------------------------------------------ probe
class Probe:
    def __init__(self, repo):
        self.ws = tempfile.mkdtemp(prefix='verif_probe_')
        src = os.path.join(self.ws, 'repo')
        if os.path.exists(os.path.join(repo, 'Cargo.toml')):
            shutil.copytree(repo, src, ignore=shutil.ignore_patterns('target', '.git'))
        else:
            # a scratch tree that only holds regexml/src (seeded-change trials): the rest of the workspace comes from /repo
            shutil.copytree('/repo', src, ignore=shutil.ignore_patterns('target', '.git'))
            shutil.rmtree(os.path.join(src, 'regexml', 'src'))
            shutil.copytree(os.path.join(repo, 'regexml', 'src'), os.path.join(src, 'regexml', 'src'))
        ex = os.path.join(src, 'regexml', 'examples')
        os.makedirs(ex, exist_ok=True)
        shutil.copy(os.path.join(VERIF, 'harness', 'verif_probe.rs'), ex)
        env = dict(os.environ, CARGO_TARGET_DIR=os.path.join(self.ws, 'target'), CARGO_NET_OFFLINE='true')
        # dev profile: overflow checks and debug assertions are on, as in the test suite (C05)
        r = subprocess.run(['cargo', 'build', '--offline', '-p', 'regexml', '--example', 'verif_probe'],
                           cwd=src, env=env, capture_output=True, text=True, timeout=1500)
        self.bin = os.path.join(self.ws, 'target', 'debug', 'examples', 'verif_probe')
        if r.returncode != 0 or not os.path.exists(self.bin):
            self.close()
            raise RuntimeError('probe build failed:\n' + r.stderr[-3000:])

    def close(self):
        shutil.rmtree(self.ws, ignore_errors=True)

    @staticmethod
    def _e(s):
        return s.replace('\\', '\\\\').replace('\t', '\\t').replace('\n', '\\n').replace('\r', '\\r')

    @staticmethod
    def _u(s):
        out, i = [], 0
        while i < len(s):
            if s[i] == '\\' and i + 1 < len(s):
                out.append({'t': '\t', 'n': '\n', 'r': '\r', '\\': '\\'}.get(s[i + 1], '\\' + s[i + 1]))
                i += 2
            else:
                out.append(s[i])
                i += 1
        return ''.join(out)

    def run(self, cases, limit_ms=3000, jobs=8, retry=True):
        """cases: list of (dialect, flags, pattern, input, replacement) -> list of dict op->result ('TIMEOUT': True).
        A long list is cut into contiguous slices that run in several probe processes side by side (the answer for a case
        does not depend on the other cases of its process: every case compiles its own regex). The first case of a slice
        that hits the time limit is run once more, alone and with ten times the limit, before it counts as not returning."""
        if len(cases) >= 4000 and jobs > 1:
            import concurrent.futures as cf
            n = (len(cases) + jobs - 1) // jobs
            parts = [cases[i:i + n] for i in range(0, len(cases), n)]
            with cf.ThreadPoolExecutor(len(parts)) as ex:
                outs = list(ex.map(lambda part: self.run(part, limit_ms, 1, retry), parts))
            return [r for o in outs for r in o]
        res = self._run(cases, limit_ms, retry)
        return res

    def _run(self, cases, limit_ms, retry=False):
        res = [None] * len(cases)
        start = 0
        confirmed = False
        while start < len(cases):
            lines = ''.join('%d\t%s\n' % (i, '\t'.join(self._e(f) for f in cases[i])) for i in range(start, len(cases)))
            p = subprocess.run([self.bin, str(limit_ms)], input=lines, capture_output=True, text=True, timeout=3600)
            last_done = start - 1
            for ln in p.stdout.split('\n'):
                f = ln.split('\t')
                if len(f) < 2 or not f[0].isdigit():
                    continue
                i = int(f[0])
                if res[i] is None:
                    res[i] = {}
                if f[1] == 'done':
                    last_done = i
                elif f[1] in ('TIMEOUT', 'PANIC'):
                    res[i][f[1]] = True
                    if f[1] == 'TIMEOUT':
                        last_done = i
                        if retry and not confirmed:
                            # once more, alone, with ten times the limit: a loaded machine must not become a C06 alarm
                            again = self._run([cases[i]], limit_ms * 10)[0]
                            if again is not None and not again.get('TIMEOUT'):
                                res[i] = again
                            else:
                                # the code under test does hang: the remaining cases get a short limit
                                confirmed = True
                                limit_ms = min(limit_ms, 500)
                elif len(f) >= 3:
                    res[i][f[1]] = self._u(f[2])
            if last_done < start:
                # no progress at all (crash): mark and skip this case
                res[start] = res[start] or {'PANIC': True}
                last_done = start
            start = last_done + 1
        return res


# ------------------------------------------------------------------ oracles
def py_flags(flags):
    f = 0
    if 'i' in flags:
        f |= re.I
    if 'm' in flags:
        f |= re.M
    if 's' in flags:
        f |= re.S
    return f


def spans_from_marked(marked, inp):
    """replace_all(input, '<$0>') -> list of (start, end) in characters of the input, or None if inconsistent"""
    spans, i, pos = [], 0, 0
    while i < len(marked):
        if marked[i] == L:
            j = marked.find(R, i + 1)
            if j < 0:
                return None
            ln = j - i - 1
            if inp[pos:pos + ln] != marked[i + 1:j]:
                return None
            spans.append((pos, pos + ln))
            pos += ln
            i = j + 1
        else:
            if pos >= len(inp) or inp[pos] != marked[i]:
                return None
            pos += 1
            i += 1
    return spans if pos == len(inp) else None


def flat_entries(s):
    """parse 'M<...>N<...>' of the probe into [('M', text, {nr: text}) | ('N', text)]"""
    out, i = [], 0

    def parse_list(i, groups):
        text = ''
        while i < len(s) and s[i] != '>':
            if s[i] == 'S':
                j = s.index('>', i + 2)
                text += s[i + 2:j]
                i = j + 1
            elif s[i] == 'G':
                j = s.index('<', i)
                nr = int(s[i + 1:j])
                t, i2 = parse_list(j + 1, groups)
                groups.setdefault(nr, []).append(t)
                text += t
                i = i2 + 1
            else:
                raise ValueError('bad analyze text')
        return text, i

    while i < len(s):
        if s[i] == 'M':
            groups = {}
            t, j = parse_list(i + 2, groups)
            out.append(('M', t, groups))
            i = j + 1
        elif s[i] == 'N':
            j = s.index('>', i + 2)
            out.append(('N', s[i + 2:j]))
            i = j + 1
        else:
            raise ValueError('bad analyze text')
    return out


class Case:
    def __init__(self, node, flags, inp, xpat=None, dialect='xpath'):
        self.node, self.flags, self.inp, self.dialect = node, flags, inp, dialect
        self.xpat = xpat if xpat is not None else to_x(node)


def check_case(c, r, pids):
    """compare one probe result with the oracles; returns [(pid, what, expected, actual)]"""
    fails = []
    node, flags, inp = c.node, c.flags, c.inp
    if r is None:
        return fails
    if r.get('TIMEOUT'):
        return [('C06', 'the call did not return within the time limit', 'a result', 'no result (time limit)')]
    if r.get('PANIC'):
        return [('C05', 'the call panicked', 'a result', 'panic')]
    if r.get('compile') != 'OK':
        return [('C07', 'a grammar-valid pattern was rejected', 'compiles', r.get('compile', '?'))]
    ml = 'm' in flags
    try:
        pre = re.compile(to_p(node, ml), py_flags(flags))
    except re.error:
        return fails
    brefs = has(node, 'bref')
    # Recorded findings (known_findings.txt) concern quantifiers applied to a body that can match without consuming input
    # (the progress guard cuts alternatives; the depth bound counts zero-width repetitions): such patterns are compared
    # with the oracle only for what does not depend on them (C16, C06, C04 consistency between the APIs)
    fragile = fragile_shape(node)
    c.fragile = fragile
    # C01: language membership of some substring
    exp = pre.search(inp) is not None
    if not fragile and r.get('is_match') != str(exp).lower():
        fails.append(('C01', 'is_match', str(exp).lower(), r.get('is_match')))
    null = pre.fullmatch('') is not None if not brefs else nullable(node)
    rep_res = r.get('replace', '')
    if not fragile and '\x1e' in r.get('tokens', '') and inp != '':
        fails.append(('C06', 'tokenize yields more than len+1 tokens', '<= len+1 tokens (or an error)', r.get('tokens', '')[:60]))
    if fragile and (null or any(r.get(op, '').startswith('ERR:MatchesEmptyString') for op in ('replace', 'tokens', 'analyze'))):
        return fails      # whether the engine finds the empty match of such a pattern is part of the recorded findings
    if null:
        # C16: replace_all and analyze on any input, tokenize on any non-empty input, reject a regex that matches the
        # empty string; tokenize on the empty input returns no tokens for every regex
        for op in ('replace', 'tokens', 'analyze'):
            if op == 'tokens' and inp == '':
                if r.get(op, '') != 'OK:':
                    fails.append(('C16', 'tokenize on the empty input', 'OK with no tokens', r.get(op, '')))
            elif not r.get(op, '').startswith('ERR:MatchesEmptyString'):
                fails.append(('C16', op + ' on a regex that matches the empty string', 'ERR:MatchesEmptyString', r.get(op, '')))
        return fails
    for op in ('replace', 'tokens', 'analyze'):
        if not r.get(op, '').startswith('OK:'):
            fails.append(('C16', op + ' on a regex that does not match the empty string', 'OK', r.get(op, '')))
            return fails
    exp_spans = [m.span() for m in pre.finditer(inp)]
    if 'q' in flags:
        # flag q: the replacement is literal too ($0 is not a reference): compare with the oracle's spans directly
        want, pos = '', 0
        for (s0, e0) in exp_spans:
            want += inp[pos:s0] + L + '$0' + R
            pos = e0
        want += inp[pos:]
        if rep_res[3:] != want:
            fails.append(('C13', 'replace_all under flag q (pattern and replacement are literal)', want, rep_res[3:]))
            return fails
        spans = exp_spans
    else:
        spans = spans_from_marked(rep_res[3:], inp)
    if spans is None:
        fails.append(('C04', 'replace_all output is not the input with the matches replaced', 'input with <match> markers', rep_res))
        return fails
    if not fragile and spans != exp_spans:
        fails.append(('C02', 'match spans (replace_all with <$0>)', str(exp_spans), str(spans)))
    # C04: tokenize and analyze follow the same spans
    toks, pos = [], 0
    for (s, e) in spans:
        toks.append(inp[pos:s])
        pos = e
    toks.append(inp[pos:])
    if inp == '':
        toks = []
    got = r['tokens'][3:]
    got_toks = got.split('\x1f') if (got != '' or inp != '') else []
    if '\x1e' in got:
        fails.append(('C06', 'tokenize yields more than len+1 tokens', '<= len+1 tokens', got))
    elif got_toks != toks and not (inp == '' and got_toks == ['']):
        fails.append(('C04', 'tokenize vs the spans of replace_all', repr(toks), repr(got_toks)))
    an = r['analyze'][3:]
    if '\x1e' in an:
        fails.append(('C06', 'analyze yields more than 2*len+1 entries', '<= 2*len+1 entries', an))
    else:
        try:
            ents = flat_entries(an)
        except Exception:
            ents = None
        if ents is None:
            fails.append(('C04', 'analyze output unreadable', 'entries', an))
        else:
            exp_ents, pos = [], 0
            for (s, e) in spans:
                if s > pos:
                    exp_ents.append(('N', inp[pos:s]))
                exp_ents.append(('M', inp[s:e]))
                pos = e
            if pos < len(inp):
                exp_ents.append(('N', inp[pos:]))
            if [(x[0], x[1]) for x in ents] != exp_ents:
                fails.append(('C04', 'analyze entries vs the spans of replace_all', repr(exp_ents), repr([(x[0], x[1]) for x in ents])))
            c.ents = ents
    c.spans = spans
    c.pymatches = None
    if not fragile and spans == exp_spans:
        pms = list(pre.finditer(inp))
        if quantified_caps(node):
            # a group under a quantifier: only the matches found on the first path tried, with nothing given back
            number_groups(node)
            rm = RefMatch(node, flags, inp)
            sel = []
            for pm in pms:
                fp = rm.first_path(pm.start())
                ok = fp is not None and fp[0] == pm.end() and all(fp[1].get(g) == pm.group(g) for g in range(1, ncaps(node) + 1))
                sel.append((pm, fp[2]) if ok else None)
            c.pymatches = sel
            c.first_path = sum(1 for x in sel if x is not None)
        elif not quantified_caps(node):
            # no group under a quantifier: the group texts are compared on every match; that a group which did not take part
            # is *absent* from analyze only where nothing that had matched was abandoned on the way (recorded finding 5: a
            # group that matched and was given up is left emptied, not unset)
            if ncaps(node) > 0:
                number_groups(node)
                rm = RefMatch(node, flags, inp)
                sel = []
                for pm in pms:
                    fp = rm.first_path(pm.start())
                    sel.append((pm, fp is not None and fp[0] == pm.end() and fp[2]))
                c.pymatches = sel
            else:
                c.pymatches = [(pm, True) for pm in pms]
    return fails


def check_groups(c, r_groups):
    """C03: the group texts analyze reports agree with what replace_all substitutes for $1..$k"""
    fails = []
    ents = getattr(c, 'ents', None)
    k = ncaps(c.node)
    if ents is None or r_groups is None or not r_groups.get('replace', '').startswith('OK:') or k == 0 or k > 9:
        return fails
    out = r_groups['replace'][3:]
    per_match = re.findall(re.escape(L) + '(.*?)' + re.escape(R), out, re.S)
    ms = [e for e in ents if e[0] == 'M']
    if len(per_match) != len(ms):
        return fails
    pym = getattr(c, 'pymatches', None)
    if pym is not None and len(pym) != len(ms):
        pym = None
    for mi, (mtxt, e) in enumerate(zip(per_match, ms)):
        caps = mtxt.split('\x03')
        if len(caps) != k:
            continue
        if pym is not None and pym[mi] is not None:
            # C03 against the oracle (patterns without a quantified group; with one: matches found with nothing given back): $N is the text of the group's last participation,
            # empty if it did not participate; analyze lists exactly the groups that participated
            for g in range(1, k + 1):
                want = pym[mi][0].group(g)
                if caps[g - 1] != (want or ''):
                    fails.append(('C03', 'text of $%d' % g, repr(want or ''), repr(caps[g - 1])))
                if not pym[mi][1]:
                    continue      # something that had matched was abandoned on the way: whether analyze lists an emptied group is recorded finding 5
                got = e[2].get(g)
                if want is None and got is not None:
                    fails.append(('C03', 'analyze lists group %d, which did not participate' % g, 'no Group entry', repr(got)))
                elif want is not None and got != [want]:
                    fails.append(('C03', 'analyze group %d' % g, repr([want]), repr(got)))
            continue
        for g in range(1, k + 1):
            t = caps[g - 1]
            got = e[2].get(g)
            if t != '' and (got is None or got != [t]):
                fails.append(('C03', 'analyze group %d vs $%d of replace_all' % (g, g), repr([t]), repr(got)))
            elif t == '' and got is not None and any(x != '' for x in got):
                fails.append(('C03', 'analyze group %d vs $%d of replace_all' % (g, g), "['']", repr(got)))
    return fails


# ------------------------------------------------------------------ equivalent spellings (C20, C08)
def respell(rng, n):
    """returns (node', law) with one algebraic law applied at a random applicable position, or None"""
    cands = []

    def visit(x, put):
        if x.k == 'rep':
            b, lo, hi, lazy = x.a
            if ncaps(b) == 0 and not lazy and not nullable(b):
                if hi is not None and hi <= 3:
                    def law_nm(x=x, put=put):
                        b, lo, hi, _ = x.a
                        parts = [b] * lo
                        tail = None
                        for _i in range(hi - lo):
                            inner = [b] + ([tail] if tail is not None else [])
                            tail = rep(grp(seq(inner), False), 0, 1, False)
                        if tail is not None:
                            parts.append(tail)
                        put(grp(seq(parts), False) if parts else grp(seq([]), False))
                    if lo + (hi - lo) > 0:
                        cands.append(('r{n,m} = n copies of r, then nested optionals', law_nm))
                if hi is None and lo <= 2:
                    def law_n(x=x, put=put):
                        b, lo, _, _ = x.a
                        put(grp(seq([b] * lo + [rep(b, 0, None, False)]), False))
                    cands.append(('r{n,} = n copies of r, then r*', law_n))
            visit(b, lambda nb, x=x: setattr(x, 'a', (nb,) + x.a[1:]))
        elif x.k == 'grp':
            visit(x.a[0], lambda nb, x=x: setattr(x, 'a', (nb, x.a[1])))
        elif x.k in ('seq', 'alt'):
            for i in range(len(x.a[0])):
                visit(x.a[0][i], lambda nb, x=x, i=i: x.a[0].__setitem__(i, nb))
        if x.k == 'lit' and x.a[0] != '\n':
            cands.append(('x = [x]', lambda x=x, put=put: put(cls([x.a[0]]))))
        if x.k in ('lit', 'cls', 'dot'):
            cands.append(('r = (?:r)', lambda x=x, put=put: put(grp(seq([N(x.k, *x.a)]), False))))
            cands.append(('r = r{1}', lambda x=x, put=put: put(rep(N(x.k, *x.a), 1, 1, False))))

    import copy
    m = copy.deepcopy(n)
    holder = [m]
    visit(m, lambda nb: holder.__setitem__(0, nb))
    if not cands:
        return None
    law, f = rng.choice(cands)
    f()
    return holder[0], law


# ------------------------------------------------------------------ driver
def search(pids, repo, tier='quick', seed=0, log=None):
    """Runs the bounded differential check; returns {'failures': [...], 'explored': {...}}; failures are dicts with
    pid, what, dialect, pattern, flags, input, expected, actual"""
    b = BOUNDS.get(tier, BOUNDS['quick'])
    rng = random.Random(1000 + seed)
    probe = Probe(repo)
    try:
        cases, groups_cases, pairs = [], [], []
        flagsets = ['', '', '', 'i', 'm', 's', 'x', 'im', 'q']
        pats = [(p, True, None) for p in shaped_patterns()]
        for fam in families():
            pats.append((fam[0], True, fam))
        for fam in class_family():
            pats.append((fam[0], True, fam))
        for _ in range(b['patterns']):
            anchors = rng.random() < 0.4
            alphabet = ['a', 'b', 'c'] if rng.random() < 0.8 else ['a', 'b', '\n']
            pats.append((gen_pattern(rng, alphabet, anchors), False, None))
        for node, shaped, fam in pats:
            if fam is not None:
                fl = fam[1]
                xpat = to_x(node)
                inputs = words(fam[2], fam[3]) if len(fam) == 4 else fam[2]
                for inp in inputs:
                    cases.append(Case(node, fl, inp, xpat))
                continue
            fl = rng.choice(flagsets) if not shaped else rng.choice(['', '', 'm', 'i'])
            alphabet = ['a', 'b', 'c']
            if has(node, 'bol') or has(node, 'eol') or any(x.k == 'lit' and x.a[0] == '\n' for x in walk(node)):
                alphabet = ['a', 'b', '\n'] if 'm' in fl or rng.random() < 0.5 else alphabet
            if 'i' in fl:
                alphabet = alphabet + ['A', 'B']
            xpat = to_x(node)
            if 'x' in fl:
                # flag x: white space outside a character class is not part of the pattern
                xs, depth, i = '', 0, 0
                while i < len(xpat):
                    ch = xpat[i]
                    if ch == '\\':
                        xs += xpat[i:i + 2]
                        i += 2
                        continue
                    depth += ch == '['
                    depth -= ch == ']'
                    xs += ch
                    if depth == 0 and rng.random() < 0.3 and '\\n' not in xpat:
                        xs += rng.choice([' ', '\t', '\n'])
                    i += 1
                xpat = xs
                if any(x.k == 'lit' and x.a[0] == '\n' for x in walk(node)):
                    continue
            if 'q' in fl:
                lits = [x.a[0] for x in walk(node) if x.k == 'lit']
                raw = to_x(node)
                node = seq([lit(ch) for ch in raw]) if raw else seq([lit('a')])
                xpat = raw if raw else 'a'
                alphabet = sorted(set(list(raw) + ['a'])) if raw else ['a']
            if shaped and any(x.k == 'lit' and x.a[0] in 'xy' for x in walk(node)):
                alphabet = ['x', 'y', 'a'] + (['X'] if 'i' in fl else [])
            if shaped:
                # the shapes that trigger the engine's shortcuts: every input up to length 5 over a 3-letter alphabet
                al3 = alphabet[:3]
                inputs = ['']
                frontier = ['']
                for _l in range(5):
                    frontier = [w + ch for w in frontier for ch in al3]
                    inputs += frontier
            else:
                inputs = gen_inputs(rng, alphabet, b['inputs_per_pattern'], b['max_input_len'])
            for inp in inputs:
                c = Case(node, fl.replace('x', '') if False else fl, inp, xpat)
                cases.append(c)
            if 'q' not in fl and 'x' not in fl:
                rs = respell(rng, node)
                if rs is not None:
                    pairs.append((node, rs[0], rs[1], fl, alphabet))
        res = probe.run([(c.dialect, c.flags, c.xpat, c.inp, L + '$0' + R) for c in cases])
        fails = []
        # C17: the XSD dialect rejects the XPath extensions and flag q, and agrees with XPath on the common subset
        xsd_reject = [('a+?b', ''), ('a*?', ''), ('a??b', ''), ('a{1,2}?', ''), ('(?:ab)c', ''), ('(a)\\1', ''), ('a\\$', '')]
        for fl in ['q', 'qi', 'iq', 'q;', 'q;k', 'iq;g', 'qi;K', 'sq;gk']:
            xsd_reject.append(('a.b', fl))
        # every XSD case is preceded, in the same process, by the XPath compilation of the same pattern and flags (and the
        # other way round for the anchor cases): what one dialect compiled must not leak into the other
        batch = []
        for (pat, fl) in xsd_reject:
            batch.append(('xpath', fl, pat, 'ab', 'X'))
            batch.append(('xsd', fl, pat, 'ab', 'X'))
        dres = probe.run(batch)[1::2]
        for (pat, fl), r in zip(xsd_reject, dres):
            if r is not None and not r.get('compile', '').startswith('ERR'):
                fails.append({'pid': 'C17', 'pids': ['C17'] + (['C13'] if 'q' in fl else []), 'what': 'Regex::xsd accepts an XPath extension (after Regex::xpath compiled the same pattern)', 'dialect': 'xsd', 'pattern': pat,
                              'flags': fl, 'input': 'ab', 'expected': 'an error', 'actual': r.get('compile', '?')})
        anchor_cases = [('xpath', '^rs$', 'rs', True), ('xsd', '^rs$', 'rs', False), ('xsd', '^rs$', '^rs$', True), ('xpath', '^rs$', '^rs$', False),
                        ('xsd', 'tu$', 'tu$', True), ('xpath', 'tu$', 'tu', True), ('xpath', 'tu$', 'tu$', False), ('xsd', 'tu$', 'tu', False)]
        ares = probe.run([(dl, '', pat, inp, 'X') for (dl, pat, inp, exp) in anchor_cases])
        for (dl, pat, inp, exp), r in zip(anchor_cases, ares):
            if r is not None and r.get('is_match') != str(exp).lower():
                fails.append({'pid': 'C17', 'pids': ['C17', 'C12'], 'what': '^ and $ are anchors under XPath and ordinary characters under XSD', 'dialect': dl, 'pattern': pat,
                              'flags': '', 'input': inp, 'expected': 'is_match ' + str(exp).lower(), 'actual': 'compile %s is_match %s' % (r.get('compile'), r.get('is_match'))})
        # explicit cases with a known answer: (dialect, pattern, flags, input, is_match, properties, what)
        X19 = ['C19', 'C03', 'C01']
        explicit = [('xpath', pat, '', inp, exp, X19, 'back-reference to a group outside the selected path') for (pat, inp, exp) in
                    [('(?:(a)b|a)\\1', 'a', True), ('^(?:a(b)|ab)\\1$', 'ab', True), ('^(?:(x)y|x)\\1-$', 'x-', True), ('^(?:(a)b|a)\\1c$', 'ac', True),
                     ('^(?:(a)b|a)\\1c$', 'aac', False), ('^(a)?b\\1$', 'b', True), ('^(a)?b\\1$', 'aba', True), ('^(a)?b\\1$', 'ab', False)]]
        # a quantified back-reference: to a group that may be unset (then every copy is empty: the repetition must still end),
        # and to a group that may hold the empty string or not (the quantifier counts copies of what was captured)
        XQ = ['C19', 'C06', 'C01', 'C08']
        for (pat, inp, exp) in [('(?:(a)|b)\\1*?c', 'bdbc', True), ('(?:(a)|b)\\1*?c', 'bdc', False), ('((a)|b)\\2+?(?:c|d)', 'bbe', False), ('(?:(a)|b)\\1{2,}?c', 'bc', True),
                                ('(?:(a)|b)\\1*c', 'bdbc', True), ('(?:(a)|b)\\1+c', 'bc', True), ('(?:(a)|b)\\1+?c', 'aac', True), ('(?:(a)|b)\\1*?c', 'aaac', True),
                                ('^(a?)\\1?b$', 'ab', True), ('^(a?)\\1?b$', 'aab', True), ('^(a?)\\1?b$', 'b', True), ('^(a?)\\1{2,3}b$', 'aab', False), ('^(a?)\\1{2,3}b$', 'aaab', True),
                                ('^(a*)\\1?b$', 'aab', True), ('^(a|)\\1*b$', 'ab', True), ('^(a|)\\1+b$', 'aab', True), ('x(a?)\\1?b', 'xab', True), ('^(a?)\\1*b$', 'ab', True)]:
            explicit.append(('xpath', pat, '', inp, exp, XQ, 'quantified back-reference'))
        # flag i: a category escape is not closed under case, a literal after it is still compared case-blind
        for (pat, fl, inp, exp) in [('\\p{Lu}+x', 'i', 'ABX', True), ('\\p{Lu}+x', 'i', 'ABx', True), ('\\p{Ll}*A', 'i', 'aba', True), ('[\\p{Lu}]+x', 'i', 'ABX', True),
                                    ('[^\\p{Ll}]+x', 'i', 'ABX', True), ('\\p{Lu}+x', '', 'ABX', False), ('\\p{Lu}+\\p{Ll}', 'i', 'AB', False), ('[A-Z-[\\p{Ll}]]+x', 'i', 'ABX', True)]:
            explicit.append(('xpath', pat, fl, inp, exp, ['C11', 'C08', 'C01', 'C10'], 'flag i next to a category escape'))
        # flags q and i together: the literal is compared case-blind
        for (pat, fl, inp, exp) in [('Hello', 'qi', 'say hello', True), ('Hello', 'qi', 'HELLO', True), ('A+', 'qi', 'xa+', True), ('A.', 'iq', 'a.', True), ('A.', 'qi', 'ab', False),
                                    ('Hello', 'q', 'say hello', False), ('hello', 'qi', 'HeLLo', True)]:
            explicit.append(('xpath', pat, fl, inp, exp, ['C13', 'C11', 'C01'], 'flags q and i'))
        # flag s in both dialects
        for dl in ('xpath', 'xsd'):
            for (pat, fl, inp, exp) in [('a.b', 's', 'a\nb', True), ('a.b', '', 'a\nb', False), ('a(.)b', 's', 'a\rb', True), ('a.b', 'si', 'A\nB', True), ('a.+b', 's', 'a\n\nb', True)]:
                explicit.append((dl, pat, fl, inp, exp, ['C17', 'C12'], 'flag s (dot matches every character) in both dialects'))
        # character class syntax: hyphens and escapes as members, as range ends, before a subtraction
        clsx = [('[a--[b]]', 'a-'), ('[ab--[b]]', 'a-'), ('[a-]', 'a-'), ('[-a]', 'a-'), ('[\\-+]', '-+'), ('[+\\-]', '-+'), ('[\\*-0]', '*+,-./0'), ('[\\--0]', '-./0'),
                ('[a\\-z]', 'a-z'), ('[\\^a]', '^a'), ('[a\\]]', 'a]'), ('[\\[a]', '[a'), ('[\\\\-a]', '\\]^_`a'), ('[+-\\-]', '+,-'), ('[\\.-0]', './0'), ('[a-c-[b]]', 'ac'),
                ('[^-a]', None), ('[\\-]', '-'), ('[a\\-]', 'a-'), ('[\\-a-c]', '-abc'), ('[\\n-\\r]', '\n\x0b\x0c\r')]
        probe_chars = list('ab-+*,./0z^]_[`\\c') + ['\n', '\r', '\x0b', ' ']
        for (pat, members) in clsx:
            for ch in probe_chars:
                exp = (ch in members) if members is not None else (ch not in '-a')
                explicit.append(('xpath', '^' + pat + '$', '', ch, exp, ['C09', 'C07', 'C01'], 'members of the class expression ' + pat))
        eres = probe.run([(dl, fl, pat, inp, 'X') for (dl, pat, fl, inp, exp, ps, what) in explicit])
        for (dl, pat, fl, inp, exp, ps, what), r in zip(explicit, eres):
            if r is None:
                continue
            pat1 = pat
            if r.get('TIMEOUT') or r.get('PANIC'):
                pid0 = 'C06' if r.get('TIMEOUT') else 'C05'
                fails.append({'pid': pid0, 'pids': sorted(set([pid0] + ps)), 'what': what + ': the call ' + ('did not return within the time limit' if r.get('TIMEOUT') else 'panicked'), 'dialect': dl, 'pattern': pat1,
                              'flags': fl, 'input': inp, 'expected': 'is_match ' + str(exp).lower(), 'actual': 'no result'})
            elif r.get('is_match') != str(exp).lower():
                fails.append({'pid': ps[0], 'pids': ps, 'what': what, 'dialect': dl, 'pattern': pat1,
                              'flags': fl, 'input': inp, 'expected': 'is_match ' + str(exp).lower(), 'actual': 'compile %s is_match %s' % (r.get('compile'), r.get('is_match'))})
        # C07: malformed patterns are rejected with Error::Syntax (each one leaves the grammar in one identifiable way)
        malformed = ['a{3,2}', '(a*){3,2}', '(a|){2,1}', '^{2,1}a', 'a${3,1}', '(', ')', 'a)', '(a', '[', '[a', 'a]', '[]', '[b-a]', 'a**', '*a', '+', '?a',
                     'a|*', '(*a)', 'a{2', 'a{,2}', 'a{x}', '\\q', '\\', 'a\\', '\\1', '(a)\\2', '(a\\1)', '[\\1]', '\\p{Foo}', '\\p{IsFoo}', '\\p{Lu',
                     '\\p{Is Basic Latin}', '\\p{IsBasic_Latin}', '\\p{L u}', '[a-\\d]', '\\0',
                     '\\p{L\xe9}', '\\p{\xe9}', '\\P{\u20ac}', '\\p{Is\xe9}', '[\\p{L\xe9}]', '\\p{LC}', '\\P{LC}', '\\p{Cs}', '\\p{L&}', '\\p{lu}', '\\p{Letter}', '\\p{Lx}', '\\p{}', '\\p{I}']
        mres = probe.run([('xpath', '', pat, 'a', 'X') for pat in malformed])
        for pat, r in zip(malformed, mres):
            if r is not None and r.get('PANIC'):
                fails.append({'pid': 'C05', 'pids': ['C05', 'C07'], 'what': 'compiling a malformed pattern panics', 'dialect': 'xpath', 'pattern': pat,
                              'flags': '', 'input': 'a', 'expected': 'ERR:Syntax', 'actual': 'panic'})
            elif r is not None and not r.get('compile', '').startswith('ERR:Syntax'):
                fails.append({'pid': 'C07', 'pids': ['C07'] + (['C10'] if ('\\p' in pat or '\\P' in pat) else []), 'what': 'a malformed pattern is not rejected with Error::Syntax', 'dialect': 'xpath', 'pattern': pat,
                              'flags': '', 'input': 'a', 'expected': 'ERR:Syntax', 'actual': r.get('compile', '?')})
        # C10: every one- and two-letter name after \\p / \\P: accepted exactly if it is one of the 36 category names of XSD (Cs excluded)
        xsd_names = set('L Lu Ll Lt Lm Lo M Mn Mc Me N Nd Nl No P Pc Pd Ps Pe Pi Pf Po Z Zs Zl Zp S Sm Sc Sk So C Cc Cf Co Cn'.split())
        names = [chr(u) for u in range(65, 91)] + [chr(u) + chr(v) for u in range(65, 91) for v in list(range(97, 123)) + list(range(65, 91))]
        ncases = [('\\p{%s}' % nm, nm) for nm in names] + [('[\\P{%s}]' % nm, nm) for nm in names if nm[0] in 'LC']
        nres = probe.run([('xpath', '', pat, 'a', 'X') for (pat, nm) in ncases])
        for (pat, nm), r in zip(ncases, nres):
            if r is None:
                continue
            okc = r.get('compile') == 'OK'
            if okc != (nm in xsd_names) or r.get('PANIC'):
                fails.append({'pid': 'C10', 'pids': ['C10', 'C07'], 'what': 'category name %s: accepted exactly if it is a category of XSD' % nm, 'dialect': 'xpath', 'pattern': pat,
                              'flags': '', 'input': 'a', 'expected': 'compiles' if nm in xsd_names else 'ERR:Syntax', 'actual': str(r.get('compile', 'panic'))})
        fres = probe.run([('xpath', fl, 'a', 'a', 'X') for fl in ['z', 'a', 'mz', 'X', 'i z']])
        for fl, r in zip(['z', 'a', 'mz', 'X', 'i z'], fres):
            if r is not None and not r.get('compile', '').startswith('ERR:InvalidFlags'):
                fails.append({'pid': 'C07', 'pids': ['C07', 'C13'], 'what': 'an unknown flag is not rejected with Error::InvalidFlags', 'dialect': 'xpath', 'pattern': 'a',
                              'flags': fl, 'input': 'a', 'expected': 'ERR:InvalidFlags', 'actual': r.get('compile', '?')})
        # C10: category, block and multi-character escapes on characters whose General_Category is stable across Unicode versions
        import unicodedata
        cat = lambda ch: unicodedata.category(ch)
        catpats = [('\\p{Lu}', lambda ch: cat(ch) == 'Lu'), ('\\p{Ll}', lambda ch: cat(ch) == 'Ll'), ('\\p{L}', lambda ch: cat(ch)[0] == 'L'), ('\\P{L}', lambda ch: cat(ch)[0] != 'L'),
                   ('\\p{Cc}', lambda ch: cat(ch) == 'Cc'), ('\\p{Co}', lambda ch: cat(ch) == 'Co'), ('\\p{Zs}', lambda ch: cat(ch) == 'Zs'), ('\\p{Zl}', lambda ch: cat(ch) == 'Zl'),
                   ('\\p{Zp}', lambda ch: cat(ch) == 'Zp'), ('\\p{Nd}', lambda ch: cat(ch) == 'Nd'), ('\\d', lambda ch: cat(ch) == 'Nd'), ('\\D', lambda ch: cat(ch) != 'Nd'),
                   ('\\w', lambda ch: cat(ch)[0] not in 'PZC'), ('\\W', lambda ch: cat(ch)[0] in 'PZC'), ('\\s', lambda ch: ch in ' \t\n\r'), ('\\S', lambda ch: ch not in ' \t\n\r'),
                   ('\\p{IsBasicLatin}', lambda ch: ord(ch) <= 0x7f), ('\\P{IsBasicLatin}', lambda ch: ord(ch) > 0x7f), ('\\p{IsLatin-1Supplement}', lambda ch: 0x80 <= ord(ch) <= 0xff),
                   ('\\p{So}', lambda ch: cat(ch) == 'So'), ('\\p{Lo}', lambda ch: cat(ch) == 'Lo'), ('\\p{Sm}', lambda ch: cat(ch) == 'Sm'), ('\\p{Pd}', lambda ch: cat(ch) == 'Pd')]
        catchars = ['\x01', '\t', ' ', '~', '\x7f', '\x80', '\xa0', '\xff', '\u0100', '\u212a', '\u2028', '\u2029', '\ue000', '\ufffd', '\U00010000', 'a', 'Z', '5', '-', '+', '_']
        ccases = [(pat, pred, ch, '') for (pat, pred) in catpats for ch in catchars]
        # inside a bracket group, with and without flag i: a category escape denotes its category and nothing else
        for (pat, pred) in [('[\\p{Lu}]', lambda ch: cat(ch) == 'Lu'), ('[^\\p{Lu}]', lambda ch: cat(ch) != 'Lu'), ('[\\p{Ll}]', lambda ch: cat(ch) == 'Ll'),
                            ('[\\d-]', lambda ch: cat(ch) == 'Nd' or ch == '-'), ('[\\p{IsBasicLatin}]', lambda ch: ord(ch) <= 0x7f), ('[\\P{L}]', lambda ch: cat(ch)[0] != 'L')]:
            for fl in ('', 'i'):
                for ch in catchars + ['m', 'M', 'k', 'K']:
                    ccases.append((pat, pred, ch, fl))
        cres2 = probe.run([('xpath', fl, '^' + pat + '$', ch, 'X') for (pat, pred, ch, fl) in ccases])
        for (pat, pred, ch, fl), r in zip(ccases, cres2):
            if r is not None and r.get('is_match') != str(bool(pred(ch))).lower():
                fails.append({'pid': 'C10', 'pids': ['C10', 'C09'] + (['C11'] if fl else []), 'what': 'membership of U+%04X in %s' % (ord(ch), pat.replace('\\\\', '\\')), 'dialect': 'xpath', 'pattern': '^' + pat + '$',
                              'flags': fl, 'input': ch, 'expected': 'is_match ' + str(bool(pred(ch))).lower(), 'actual': 'compile %s is_match %s' % (r.get('compile'), r.get('is_match'))})
        # C14: flag x removes exactly TAB, LF, CR and SPACE outside character classes
        xcases = [('a\x0cb', 'x', 'a\x0cb', True), ('a\x0cb', 'x', 'ab', False), ('a b', 'x', 'ab', True), ('a b', 'x', 'a b', False), ('a\tb\r\nc', 'x', 'abc', True),
                  ('[ ]', 'x', ' ', True), ('[ ]', 'x', '', False), ('a[ b]c', 'x', 'a c', True), ('a\x0bb', 'x', 'a\x0bb', True), ('a\xa0b', 'x', 'a\xa0b', True),
                  ('a\u2003b', 'x', 'ab', False), ('( a | b ) c', 'x', 'bc', True), ('a b', 'qx', 'a b', True), ('a b', 'qx', 'ab', False),
                  ('[a\\\\] b', 'x', 'ab', True), ('[a\\\\] b', 'x', 'a b', False), ('\\\\[ab] c', 'x', '\\ac', True), ('\\\\[ ]', 'x', '\\ ', True), ('\\[ a', 'x', '[a', True)]
        xres = probe.run([('xpath', fl, pat, inp, 'X') for (pat, fl, inp, exp) in xcases])
        for (pat, fl, inp, exp), r in zip(xcases, xres):
            if r is not None and r.get('is_match') != str(exp).lower():
                fails.append({'pid': 'C14', 'pids': ['C14', 'C13'] if 'q' in fl else ['C14'], 'what': 'flag x: which characters of the pattern are ignored', 'dialect': 'xpath',
                              'pattern': pat, 'flags': fl, 'input': inp, 'expected': 'is_match ' + str(exp).lower(), 'actual': 'compile %s is_match %s' % (r.get('compile'), r.get('is_match'))})
        # C15: replacement strings
        def expand(repl, m, ngroups):
            out, i = '', 0
            while i < len(repl):
                ch = repl[i]
                if ch == '\\':
                    if i + 1 < len(repl) and repl[i + 1] in '\\$':
                        out += repl[i + 1]
                        i += 2
                        continue
                    return None
                if ch == '$':
                    j = i + 1
                    if j >= len(repl) or not repl[j].isdigit():
                        return None
                    if ngroups > 9:
                        k = j + 1
                        while k < len(repl) and repl[k].isdigit() and int(repl[j:k + 1]) <= ngroups:
                            k += 1
                    else:
                        k = j + 1
                    nr = int(repl[j:k])
                    if nr <= ngroups:
                        out += (m.group(nr) or '')
                    i = k
                    continue
                out += ch
                i += 1
            return out
        ten = ''.join('(%s)' % ch for ch in 'abcdefghij')
        rpats = [('(a)(b)?', 2, 'xabyaz'), ('(a){0}(b)', 2, 'xbx'), (ten, 10, '-abcdefghij-'), ('(a)(b)(c)(d)(e)(f)(g)(h)(i){0}(j)', 10, '-abcdefghj-'), ('a', 0, 'banana'), ('(a)|b', 1, 'abc'), ('(a)(b)', 2, 'xyz'), ('a', 0, ''), ('(a)', 1, 'xyz'),
                 (''.join('(%s)' % ch for ch in 'abcdefghijkl'), 12, '-abcdefghijkl-')]
        repls = ['$1', '[$1|$2]', '$2', '$10', '$11', '$0', '\\$', '\\\\', 'x$', '\\x', '$a', '$1$1', '<$0>$3', '$9x', '$01',
                 '<$12' + '0' * 20 + '>', '$1' + '0' * 25, '$' + '9' * 30, '$12' + '3' * 19, '$18446744073709551616', '$18446744073709551617x']
        rcases = [(pat, ng, inp, rp) for (pat, ng, inp) in rpats for rp in repls]
        rres = probe.run([('xpath', '', pat, inp, rp) for (pat, ng, inp, rp) in rcases])
        for (pat, ng, inp, rp), r in zip(rcases, rres):
            if r is None:
                continue
            pre = re.compile(pat)
            ms = list(pre.finditer(inp))
            bad = any(expand(rp, m, ng) is None for m in ms[:1])
            if bad:
                want = 'ERR:InvalidReplacementString'
            else:
                want, pos = 'OK:', 0
                for m in ms:
                    want += inp[pos:m.start()] + expand(rp, m, ng)
                    pos = m.end()
                want += inp[pos:]
            if r.get('PANIC') or r.get('TIMEOUT'):
                pid0 = 'C05' if r.get('PANIC') else 'C06'
                fails.append({'pid': pid0, 'pids': [pid0, 'C15'], 'what': 'replace_all with replacement %r %s' % (rp, 'panics' if r.get('PANIC') else 'does not return'), 'dialect': 'xpath', 'pattern': pat, 'flags': '',
                              'input': inp, 'expected': want, 'actual': 'no result'})
            elif r.get('replace') != want:
                fails.append({'pid': 'C15', 'pids': ['C15', 'C03'], 'what': 'replace_all with replacement %r' % rp, 'dialect': 'xpath', 'pattern': pat, 'flags': '',
                              'input': inp, 'expected': want, 'actual': str(r.get('replace'))})
        common = [c for c in cases if not any(x.k in ('bol', 'eol', 'bref') or (x.k == 'rep' and x.a[3]) or (x.k == 'grp' and not x.a[1]) for x in walk(c.node))
                  and 'q' not in c.flags and '(?:' not in c.xpat][:1500]
        cres = probe.run([('xsd', c.flags, c.xpat, c.inp, L + '$0' + R) for c in common])
        by_case = {id(c): r for c, r in zip(cases, res)}
        for c, r in zip(common, cres):
            r0 = by_case.get(id(c))
            if r is None or r0 is None:
                continue
            for op in ('compile', 'is_match', 'replace', 'tokens', 'analyze'):
                if r.get(op) != r0.get(op):
                    fails.append({'pid': 'C17', 'pids': ['C17'], 'what': 'the two dialects disagree on a pattern of the common subset: ' + op, 'dialect': 'xsd',
                                  'pattern': c.xpat, 'flags': c.flags, 'input': c.inp, 'expected': 'as under XPath: ' + str(r0.get(op)), 'actual': str(r.get(op))})
                    break
        todo_groups = []
        for c, r in zip(cases, res):
            for (pid, what, exp, act) in check_case(c, r, pids):
                f = {'pid': pid, 'what': what, 'dialect': c.dialect, 'pattern': c.xpat, 'flags': c.flags, 'input': c.inp,
                     'expected': exp, 'actual': act}
                f['pids'] = failure_pids(f, c.node)
                fails.append(f)
            k = ncaps(c.node)
            if getattr(c, 'ents', None) is not None and 0 < k <= 9 and 'q' not in c.flags:
                todo_groups.append(c)
        gres = probe.run([(c.dialect, c.flags, c.xpat, c.inp, L + '\x03'.join('$%d' % g for g in range(1, ncaps(c.node) + 1)) + R) for c in todo_groups])
        for c, r in zip(todo_groups, gres):
            for (pid, what, exp, act) in check_groups(c, r):
                gp = {pid} | ({'C15'} if what.startswith('text of $') else set()) | ({'C19'} if has(c.node, 'bref') else set())
                fails.append({'pid': pid, 'pids': sorted(gp), 'what': what, 'dialect': c.dialect, 'pattern': c.xpat, 'flags': c.flags, 'input': c.inp,
                              'expected': exp, 'actual': act})
        # equivalent spellings: compare the engine with itself
        pc = []
        for (n1, n2, law, fl, alphabet) in pairs:
            for inp in gen_inputs(rng, alphabet, max(6, b['inputs_per_pattern'] // 2), b['max_input_len']):
                pc.append((n1, n2, law, fl, inp))
        r1 = probe.run([('xpath', fl, to_x(n1), inp, L + '$0' + R) for (n1, n2, law, fl, inp) in pc])
        r2 = probe.run([('xpath', fl, to_x(n2), inp, L + '$0' + R) for (n1, n2, law, fl, inp) in pc])
        for (n1, n2, law, fl, inp), a, bb in zip(pc, r1, r2):
            if a is None or bb is None:
                continue
            for op in ('compile', 'is_match', 'replace'):
                if op != 'compile' and (fragile_shape(n1) or fragile_shape(n2)):
                    continue
                if a.get(op) != bb.get(op) or a.get('TIMEOUT') != bb.get('TIMEOUT'):
                    fails.append({'pid': 'C20', 'pids': ['C08', 'C20'], 'what': 'two spellings of one pattern (%s): %s differs' % (law, op), 'dialect': 'xpath',
                                  'pattern': to_x(n1), 'flags': fl, 'input': inp,
                                  'expected': 'same as for the spelling %s: %s' % (to_x(n2), bb.get(op)), 'actual': str(a.get(op))})
                    break
        explored = {'patterns': len(pats), 'cases': len(cases), 'cases_compared_with_oracle': sum(1 for c in cases if getattr(c, 'fragile', None) is False),
                    'cases_on_shapes_of_recorded_findings_not_compared': sum(1 for c in cases if getattr(c, 'fragile', None) is True), 'group_cases': len(todo_groups), 'matches_with_a_quantified_group_compared_with_oracle_groups': sum(getattr(c, 'first_path', 0) for c in cases), 'spelling_pairs': len(pairs), 'spelling_cases': len(pc),
                    'bounds': b, 'seed': seed,
                    'oracle': "Python re on the common fragment; metamorphic relations between the APIs and between two spellings"}
        return {'failures': fails, 'explored': explored}
    finally:
        probe.close()


def feature_pids(node, flags):
    """properties a disagreement on this (pattern, flags) bears on, besides the one the comparison is about"""
    out = set()
    if has(node, 'bref'):
        out |= {'C19', 'C03'}
    if 'i' in flags:
        out |= {'C11'}
    if has(node, 'bol') or has(node, 'eol') or has(node, 'dot') or 'm' in flags or 's' in flags:
        out |= {'C12'}
    if any(x.k == 'cls' and (x.a[1] or x.a[2] or any(isinstance(i, tuple) for i in x.a[0])) for x in walk(node)):
        out |= {'C09'}
    if 'x' in flags:
        out |= {'C14', 'C13'}
    if 'q' in flags:
        out |= {'C13'}
    return out


def failure_pids(f, node):
    base = f['pid']
    out = {base}
    if base in ('C01', 'C02'):
        out |= {'C08', 'C20'} | feature_pids(node, f['flags'])
        if nullable(node):
            out |= {'C16'}      # whether the regex matches the empty string is what the guard of replace / tokenize / analyze asks
        if base == 'C02':
            out |= {'C04'}      # the pieces between consecutive matches are the tokens / the analyze entries
    if base == 'C04':
        out |= {'C02'}
    if base == 'C20':
        out |= {'C08'}
    if base == 'C13':
        out |= {'C01'}
    return sorted(out)


def tree_key(repo, tier, seed):
    import hashlib
    h = hashlib.sha256()
    src = os.path.join(repo, 'regexml', 'src')
    for fn in sorted(os.listdir(src)):
        fp = os.path.join(src, fn)
        if os.path.isfile(fp):
            h.update(fn.encode())
            h.update(open(fp, 'rb').read())
    for fp in (os.path.abspath(__file__), os.path.join(VERIF, 'harness', 'verif_probe.rs')):
        h.update(open(fp, 'rb').read())
    h.update(('%s/%s' % (tier, seed)).encode())
    return h.hexdigest()[:24]


def cached_search(repo, tier, seed):
    """search() once per (source tree, tier, seed): the checks of several properties run side by side and share the result"""
    import fcntl
    import json
    d = os.path.join(VERIF, 'build', 'witness_cache')
    os.makedirs(d, exist_ok=True)
    key = tree_key(repo, tier, seed)
    path = os.path.join(d, key + '.json')
    with open(os.path.join(d, key + '.lock'), 'w') as lk:
        fcntl.flock(lk, fcntl.LOCK_EX)
        if os.path.exists(path):
            return json.load(open(path))
        out = search(None, repo, tier, seed)
        for f in out['failures']:
            f.setdefault('pids', [f['pid']])
        tmp = path + '.tmp%d' % os.getpid()
        json.dump(out, open(tmp, 'w'))
        os.replace(tmp, path)
        # keep the cache small
        olds = sorted((os.path.getmtime(os.path.join(d, x)), x) for x in os.listdir(d) if x.endswith('.json'))
        for _, x in olds[:-12]:
            for ext in ('', ):
                try:
                    os.remove(os.path.join(d, x))
                    os.remove(os.path.join(d, x[:-5] + '.lock'))
                except OSError:
                    pass
        return out


def replay_text(f):
    """a self-contained test that replays the failing input on the real code"""
    def rs(s):
        return '"' + ''.join('\\u{%x}' % ord(ch) if ord(ch) < 32 or ch in '"\\' or ord(ch) > 126 else ch for ch in s) + '"'
    ctor = 'xsd' if f['dialect'] == 'xsd' else 'xpath'
    return ('failing input found by the bounded search through the public API\n'
            f"property  : {f['pid']}\nwhat      : {f['what']}\npattern   : {f['pattern']!r}\nflags     : {f['flags']!r}\ninput     : {f['input']!r}\n"
            f"expected  : {f['expected']}\nactual    : {f['actual']}\n\n"
            '// replay: save as regexml/tests/replay.rs in the repository and run `cargo test --test replay -- --nocapture`\n'
            'use regexml::Regex;\n#[test]\nfn replay() {\n'
            f'    let re = Regex::{ctor}({rs(f["pattern"])}, {rs(f["flags"])}).unwrap();\n'
            f'    let input = {rs(f["input"])};\n'
            '    println!("is_match   : {:?}", re.is_match(input));\n'
            '    println!("replace_all: {:?}", re.replace_all(input, "<$0>"));\n'
            '    println!("tokenize   : {:?}", re.tokenize(input).map(|t| t.collect::<Vec<_>>()));\n'
            '    println!("analyze    : {:?}", re.analyze(input).map(|t| t.collect::<Vec<_>>()));\n'
            '}\n')


if __name__ == '__main__':
    import sys
    import json
    repo = os.environ.get('VERIF_REPO', '/repo')
    tier = sys.argv[1] if len(sys.argv) > 1 else 'quick'
    out = search(None, repo, tier, int(os.environ.get('VERIF_SEED', '0') or 0))
    print(json.dumps(out['explored']))
    byp = {}
    for f in out['failures']:
        byp.setdefault(f['pid'], []).append(f)
    for pid, fs in sorted(byp.items()):
        print(pid, len(fs))
        for f in fs[:8]:
            print('   ', f['what'], '| pattern', repr(f['pattern']), 'flags', repr(f['flags']), 'input', repr(f['input']), '| expected', f['expected'][:80], '| actual', f['actual'][:80])
