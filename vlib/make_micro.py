#!/usr/bin/env python3
"""dev helper: write a set of one-line, behaviour-preserving edits of /repo as patches under /verif/harmless/micro/
(used to look for brittle proofs: each keeps every anchor, so the units stay decidable and must still verify)"""
import os
import subprocess
import tempfile

EDITS = [
    ('M01', 'regexml/src/re_matcher.rs', '            if start >= Some(pos) {\n                self.set_capture_state_endn(i, start);',
     '            if Some(pos) <= start {\n                self.set_capture_state_endn(i, start);'),
    ('M02', 'regexml/src/op_repeat.rs', '                if self.iterators.len() >= self.min || self.iterators.is_empty() {',
     '                if self.iterators.is_empty() || self.iterators.len() >= self.min {'),
    ('M03', 'regexml/src/op_sequence.rs', '                    if i >= self.operations.len() {', '                    if self.operations.len() <= i {'),
    ('M04', 'regexml/src/analyze_string.rs', '                    if search_start >= self.matcher.search.len() {',
     '                    if self.matcher.search.len() <= search_start {'),
    ('M05', 'regexml/src/op_back_reference.rs', '            if (position + l - 1) >= search.len() {', '            if position + l > search.len() {'),
    ('M06', 'regexml/src/op_greedy_fixed.rs', '        if self.max < usize::MAX {', '        if self.max != usize::MAX {'),
    ('M07', 'regexml/src/regex.rs', '        if haystack.is_empty() {', '        if haystack.len() == 0 {'),
    ('M08', 'regexml/src/op_choice.rs', '            self.matcher.clear_captured_groups_beyond(self.position);\n            self.current_iter',
     '            let position = self.position;\n            self.matcher.clear_captured_groups_beyond(position);\n            self.current_iter'),
    ('M09', 'regexml/src/re_program.rs', '        if self.flags.is_multi_line() {', '        if self.flags.is_multi_line() == true {'),
    ('M10', 'regexml/src/op_atom.rs', '        if self.len == 0 {\n            MATCHES_ZLS_ANYWHERE', '        if self.atom.is_empty() {\n            MATCHES_ZLS_ANYWHERE'),
    ('M11', 'regexml/src/op_reluctant_fixed.rs', '        if self.count < self.max {', '        if self.max > self.count {'),
    ('M12', 'regexml/src/re_compiler.rs', '        if self.idx >= self.len {', '        if self.len <= self.idx {'),
]


def main():
    out = '/verif/harmless/micro'
    os.makedirs(out, exist_ok=True)
    for (n, f, a, b) in EDITS:
        src = open('/repo/' + f).read()
        if src.count(a) < 1:
            print(n, 'anchor not found')
            continue
        with tempfile.TemporaryDirectory() as d:
            for side, text in (('a', src), ('b', src.replace(a, b, 1))):
                os.makedirs(os.path.join(d, side, os.path.dirname(f)), exist_ok=True)
                open(os.path.join(d, side, f), 'w').write(text)
            diff = subprocess.run(['diff', '-u', 'a/' + f, 'b/' + f], cwd=d, capture_output=True, text=True).stdout
        open(os.path.join(out, n + '.diff'), 'w').write(diff)
        print(n, 'ok')


main()
