#!/bin/bash
# dev helper: every archived seeded change against the quick check of its own property (4 at a time, scratch copies);
# optional argument: a grep pattern selecting seeded directories (e.g. -r5-)
# prints one line per change: <dir> <pid> rc=<n> deductive|bounded|missed
cd /verif
ls seeded | grep -e "${1:-.}" | while read d; do
  pid=$(python3 -c "import json,sys;print(json.load(open('seeded/$d/meta.json')).get('property',''))")
  case "$pid" in C[0-9][0-9]) echo "$d $pid";; esac
done > build/matrix_jobs.txt
: > build/matrix_res.txt
cat build/matrix_jobs.txt | xargs -P 4 -L 1 sh -c 'vlib/try_seeded_wt.sh $0 $1 > /dev/null 2>&1; f=build/seedres_$0.txt; rc=$(grep -o "rc=[0-9]*" $f | head -1); if grep -q "VIOLATION.*obligation=bounded" $f; then k=bounded; elif grep -q "VIOLATION" $f; then k=deductive; else k=missed; fi; echo "$0 $1 $rc $k" >> build/matrix_res.txt'
sort build/matrix_res.txt
echo "total=$(wc -l < build/matrix_res.txt) deductive=$(grep -c ' deductive' build/matrix_res.txt) bounded=$(grep -c ' bounded' build/matrix_res.txt) missed=$(grep -c ' missed' build/matrix_res.txt)"
