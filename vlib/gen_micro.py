#!/usr/bin/env python3
"""dev helper: generate one-line behaviour-preserving edits of /repo mechanically (operand order of a comparison,
`x += n` spelled out, is_empty <-> len, != as a negated ==) and write those that still compile as patches.
usage: gen_micro.py <outdir> [per_file]     (outdir is scratch; nothing registered depends on it)"""
import os
import random
import re
import shutil
import subprocess
import sys
import tempfile

SRC = '/repo/regexml/src'
OPND = r'(?:\*?[A-Za-z_][\w.]*(?:\(\))?|\d+)'
FLIP = {'>=': '<=', '<=': '>=', '>': '<', '<': '>'}


def candidates(text):
    """(kind, start, end, replacement) over the non-test part of a file"""
    m0 = re.search(r'#\[cfg\(test\)\]\s*mod ', text)
    cut = m0.start() if m0 else -1
    body = text if cut < 0 else text[:cut]
    out = []
    off = 0
    for line in body.split('\n'):
        code = line.split('//')[0]
        if re.search(r'\b(if|while)\b', code) and '::<' not in code and 'let Some' not in code:
            for m in re.finditer(r'(?<![\w.)])(?<![-+*/%] )(' + OPND + r') (>=|<=|>|<) (' + OPND + r')(?![\w.(\[])(?! [-+*/%])', code):
                if '->' in code or m.group(1) in ('if', 'while'):
                    continue
                out.append(('cmp', off + m.start(), off + m.end(), f'{m.group(3)} {FLIP[m.group(2)]} {m.group(1)}'))
            for m in re.finditer(r'(?<![\w.)])(?<![-+*/%] )(' + OPND + r') == (' + OPND + r')(?![\w.(\[])(?! [-+*/%])', code):
                if m.group(1) in ('if', 'while'):
                    continue
                out.append(('eq', off + m.start(), off + m.end(), f'{m.group(2)} == {m.group(1)}'))
            for m in re.finditer(r'(?<![\w.)!])(?<![-+*/%] )(' + OPND + r') != (' + OPND + r')(?![\w.(\[])(?! [-+*/%])', code):
                if m.group(1) in ('if', 'while'):
                    continue
                out.append(('ne', off + m.start(), off + m.end(), f'!({m.group(1)} == {m.group(2)})'))
        m = re.match(r'^(\s*)([A-Za-z_][\w.]*) ([-+])= (\d+|[A-Za-z_][\w.]*);\s*$', code)
        if m:
            out.append(('inc', off + m.start(2), off + m.end(4) + 1, f'{m.group(2)} = {m.group(2)} {m.group(3)} {m.group(4)};'))
        for m in re.finditer(r'(!?)([A-Za-z_][\w.]*)\.is_empty\(\)', code):
            x = m.group(2)
            out.append(('empty', off + m.start(), off + m.end(), (f'{x}.len() > 0' if m.group(1) else f'{x}.len() == 0')))
        off += len(line) + 1
    return out


SIMPLE = re.compile(r'^(\s*)(?:let (?:mut )?([A-Za-z_]\w*)(?:: [\w<>:, ]+)? = ([^;(){}\[\]|]*);|((?:self\.)?[A-Za-z_][\w.]*) (?:[-+*]?=) ([^;(){}\[\]|]*);)\s*$')


def swap_candidates(text):
    """pairs of adjacent one-line statements (a `let` or an assignment whose right-hand side calls nothing and indexes
    nothing) that neither read nor write what the other writes: swapping them cannot change behaviour"""
    m0 = re.search(r'#\[cfg\(test\)\]\s*mod ', text)
    body = text if not m0 else text[:m0.start()]
    lines = body.split('\n')
    offs, o = [], 0
    for ln in lines:
        offs.append(o)
        o += len(ln) + 1
    out = []
    for i in range(len(lines) - 1):
        a, b = SIMPLE.match(lines[i]), SIMPLE.match(lines[i + 1])
        if not a or not b or a.group(1) != b.group(1):
            continue
        wa, ra = (a.group(2) or a.group(4)), (a.group(3) if a.group(2) else a.group(5))
        wb, rb = (b.group(2) or b.group(4)), (b.group(3) if b.group(2) else b.group(5))
        ids = lambda e: set(re.findall(r'[A-Za-z_][\w.]*', e))
        root = lambda w: w
        if '+=' in lines[i] or '-=' in lines[i] or '*=' in lines[i]:
            ra = ra + ' ' + wa
        if '+=' in lines[i + 1] or '-=' in lines[i + 1] or '*=' in lines[i + 1]:
            rb = rb + ' ' + wb
        def clash(w, others):
            return any(x == w or x.startswith(w + '.') or w.startswith(x + '.') for x in others)
        if clash(wa, ids(rb) | {wb}) or clash(wb, ids(ra) | {wa}):
            continue
        out.append(('swap', offs[i], offs[i + 1] + len(lines[i + 1]), lines[i + 1] + '\n' + lines[i]))
    return out


def main():
    outdir = sys.argv[1]
    per_file = int(sys.argv[2]) if len(sys.argv) > 2 else 8
    os.makedirs(outdir, exist_ok=True)
    rnd = random.Random(int(os.environ.get('MICRO_SEED', '20261003')))
    w = tempfile.mkdtemp(prefix='genmicro_')
    subprocess.run(['cp', '-r', '/repo/.', w], check=True)
    subprocess.run(['cargo', 'check', '--offline', '-p', 'regexml'], cwd=w, capture_output=True)
    n = 0
    try:
        for f in sorted(os.listdir(SRC)):
            only = os.environ.get('MICRO_FILES')
            if not f.endswith('.rs') or f in ('block.rs', 'lib.rs') or (only and f not in only.split(',')):
                continue
            text = open(os.path.join(SRC, f)).read()
            cands = swap_candidates(text) if os.environ.get('MICRO_KIND') == 'swap' else candidates(text)
            rnd.shuffle(cands)
            kept = 0
            for (kind, a, b, rep) in cands:
                if kept >= per_file:
                    break
                new = text[:a] + rep + text[b:]
                tgt = os.path.join(w, 'regexml', 'src', f)
                open(tgt, 'w').write(new)
                r = subprocess.run(['cargo', 'check', '--offline', '-p', 'regexml'], cwd=w, capture_output=True, text=True)
                open(tgt, 'w').write(text)
                if r.returncode != 0:
                    continue
                with tempfile.TemporaryDirectory() as d:
                    rel = 'regexml/src/' + f
                    for side, t in (('a', text), ('b', new)):
                        os.makedirs(os.path.join(d, side, 'regexml/src'), exist_ok=True)
                        open(os.path.join(d, side, rel), 'w').write(t)
                    diff = subprocess.run(['diff', '-u', 'a/' + rel, 'b/' + rel], cwd=d, capture_output=True, text=True).stdout
                n += 1
                kept += 1
                name = 'A%03d_%s_%s' % (n, f[:-3], kind)
                open(os.path.join(outdir, name + '.diff'), 'w').write(diff)
                print(name, repr(text[a:b]), '->', repr(rep))
    finally:
        shutil.rmtree(w, ignore_errors=True)


main()
