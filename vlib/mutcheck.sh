#!/bin/bash
# usage: mutcheck.sh <PID> <file> <sed-expr>   — applies sed to a scratch copy of /repo sources and runs ./check PID on it
set -e
S=$(mktemp -d /tmp/mutXXXX); mkdir -p $S/regexml; cp -r /repo/regexml/src $S/regexml/
sed -i "$3" $S/regexml/src/$2
if diff -q /repo/regexml/src/$2 $S/regexml/src/$2 >/dev/null; then echo "MUTATION DID NOT APPLY"; rm -rf $S; exit 3; fi
cd /verif; VERIF_REPO=$S ./check $1 | grep -v "^\[" | cut -c1-300 ; rc=${PIPESTATUS[0]}
rm -rf $S; echo "rc=$rc"
