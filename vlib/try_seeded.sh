#!/bin/bash
# usage: try_seeded.sh <patch.diff> [PID ...]  — apply the seeded change to /repo, run the given checks (default: all claimed), revert
set -u
PATCH=$1; shift
cd /verif
git -C /repo apply "$PATCH" || { echo "PATCH DOES NOT APPLY"; exit 3; }
ids="$@"
[ -z "$ids" ] && ids=$(python3 -c "import json;print(' '.join(c['property_id'] for c in json.load(open('MANIFEST.json'))['checks']))")
mkdir -p build/seeded_ev
for p in $ids; do (VERIF_EVIDENCE_DIR=build/seeded_ev ./check $p > build/seed_out_$p.txt 2>&1; echo "$p rc=$?" >> build/seed_rc.txt) & done; wait
git -C /repo checkout -- .
sort build/seed_rc.txt; rm -f build/seed_rc.txt
for p in $ids; do grep -h "VIOLATION\|UNDECIDED" build/seed_out_$p.txt | cut -c1-260; done
