#!/bin/bash
# usage: confirm_seeded3.sh <ID> — round 3: confirm the change in /tmp/mw3_<ID>: suite passes with it, demo fails with it and passes without it
ID=$1; W=${MW:-/tmp/mw3}_$ID; OUT=/tmp/confirm3_$ID.txt
cd $W || exit 3
export CARGO_TARGET_DIR=$W/target
git checkout -q -- regexml/src; rm -f regexml/tests/demo_seeded.rs
git apply out/patch.diff || { echo "PATCH DOES NOT APPLY" > $OUT; exit 3; }
echo "== suite with change" > $OUT
timeout 1800 cargo test --workspace --no-fail-fast --offline 2>&1 | grep -E "^test result|FAILED|panicked" | sort | uniq -c >> $OUT
cp out/demo_seeded.rs regexml/tests/demo_seeded.rs
echo "== demo with change" >> $OUT
timeout 900 cargo test -p regexml --test demo_seeded --offline 2>&1 | grep -E "^test result" >> $OUT
git apply -R out/patch.diff
echo "== demo without change" >> $OUT
timeout 900 cargo test -p regexml --test demo_seeded --offline 2>&1 | grep -E "^test result" >> $OUT
rm -f regexml/tests/demo_seeded.rs
git checkout -q -- regexml/src
echo "== done" >> $OUT
