#!/bin/bash
# dev helper: assemble + verify one unit, print errors
cd /verif && python3 - "$1" <<'PY'
import sys
sys.path.insert(0,'/verif')
from vlib.assemble import parse_unit, assemble
u=parse_unit(f'/verif/units/{sys.argv[1]}.vu')
a=assemble(u)
open(f'/verif/build/{sys.argv[1]}.rs','w').write('\n'.join(a.out.lines)+'\n')
PY
rc=$?; [ $rc -eq 0 ] || exit 1
[ $? -eq 0 ] || exit 1
cd /verif/build && verus $1.rs --multiple-errors 20 "${@:2}" 2>&1 | grep -v conda
