#!/bin/bash
# dev helper: the bounded search alone against a scratch copy of /repo's sources with an archived seeded change applied
# usage: try_witness.sh <seeded-dir-name> [quick|thorough]
N=$1; T=${2:-quick}
W=$(mktemp -d /tmp/wittry_XXXXXX)
mkdir -p $W/regexml && cp -r /repo/regexml/src $W/regexml/src
( cd $W && patch -s -p1 < /verif/seeded/$N/patch.diff ) || { echo "PATCH DOES NOT APPLY"; rm -rf $W; exit 3; }
cd /verif && VERIF_REPO=$W VERIF_SEED=${VERIF_SEED:-0} python3 vlib/witness.py $T 2>&1 | grep -v conda | cut -c1-400 | head -${LINES_MAX:-12}
rm -rf $W
