#!/bin/bash
# usage: confirm_seeded.sh <ID> [worktree]  — confirm a seeded change: suite passes with it, demo fails with it and passes without it
ID=$1; W=${2:-/tmp/mw_$ID}; OUT=/tmp/confirm_$ID.txt
cd $W || exit 3
export CARGO_TARGET_DIR=$W/target
git checkout -q -- regexml/src; rm -f regexml/tests/demo_seeded.rs
git apply out/patch.diff || { echo "PATCH DOES NOT APPLY" > $OUT; exit 3; }
echo "== suite with change" > $OUT
timeout 1500 cargo test --workspace --no-fail-fast --offline 2>&1 | grep -E "^test result|FAILED|panicked" | sort | uniq -c >> $OUT
cp out/demo_seeded.rs regexml/tests/demo_seeded.rs
echo "== demo with change" >> $OUT
timeout 600 cargo test -p regexml --test demo_seeded --offline 2>&1 | grep -E "^test result|^test .* (ok|FAILED)" >> $OUT
git apply -R out/patch.diff
echo "== demo without change" >> $OUT
timeout 600 cargo test -p regexml --test demo_seeded --offline 2>&1 | grep -E "^test result|^test .* (ok|FAILED)" >> $OUT
rm -f regexml/tests/demo_seeded.rs
git checkout -q -- regexml/src
echo "== done" >> $OUT
