#!/bin/bash
# usage: reconfirm_seeded.sh <worktree> <seeded-dir-name>... — re-confirm archived seeded changes against /repo HEAD in a scratch worktree:
# patch applies, suite passes with it, demo fails with it and passes without it. Result lines go to build/reconfirm/<name>.txt
W=$1; shift
mkdir -p /verif/build/reconfirm
[ -d $W ] || git -C /repo worktree add -q --detach $W HEAD
cd $W || exit 3
git checkout -q --detach $(git -C /repo rev-parse HEAD)
export CARGO_TARGET_DIR=$W/target
for N in "$@"; do
  S=/verif/seeded/$N; OUT=/verif/build/reconfirm/$N.txt
  git checkout -q -- . ; rm -f regexml/tests/demo_seeded.rs
  if ! git apply $S/patch.diff 2>/dev/null; then echo "APPLY=no" > $OUT; continue; fi
  suite=$(timeout 1500 cargo test --workspace --no-fail-fast --offline 2>&1 | grep -cE "FAILED|panicked")
  cp $S/demo_seeded.rs regexml/tests/demo_seeded.rs
  with=$(timeout 600 cargo test -p regexml --test demo_seeded --offline 2>&1 | grep -E "^test result" | head -1)
  git apply -R $S/patch.diff
  without=$(timeout 600 cargo test -p regexml --test demo_seeded --offline 2>&1 | grep -E "^test result" | head -1)
  rm -f regexml/tests/demo_seeded.rs
  echo "APPLY=yes suite_failures=$suite | with: $with | without: $without" > $OUT
done
git checkout -q -- .
