#!/bin/bash
# usage: try_seeded_wt.sh <ID> [PID ...] — run the checks against the scratch worktree /tmp/mw_<ID> with its seeded change applied
# (same as try_seeded.sh, but on the worktree through VERIF_REPO so that several seeded changes can be tried at once)
set -u
ID=$1; shift
W=/tmp/mw_$ID
cd $W && git checkout -q -- regexml/src && rm -f regexml/tests/demo_seeded.rs && git apply out/patch.diff || { echo "PATCH DOES NOT APPLY"; exit 3; }
cd /verif
ids="$@"
[ -z "$ids" ] && ids=$(python3 -c "import json;print(' '.join(c['property_id'] for c in json.load(open('MANIFEST.json'))['checks']))")
mkdir -p build/seeded_ev_$ID
R=build/seedres_$ID.txt; : > $R
for p in $ids; do
  VERIF_REPO=$W VERIF_EVIDENCE_DIR=build/seeded_ev_$ID ./check $p > build/seed_out_${ID}_$p.txt 2>&1; echo "$p rc=$?" >> $R
  grep -h "VIOLATION\|UNDECIDED\|undecided:" build/seed_out_${ID}_$p.txt | cut -c1-300 >> $R
done
git -C $W checkout -q -- regexml/src
echo "== $ID"; cat $R
