#!/bin/bash
# usage: try_seeded_wt.sh <seeded-dir-name> [PID ...] — run the checks against a scratch copy of /repo's sources with the archived
# seeded change applied (through VERIF_REPO, so several changes can be tried at once); the copy is removed afterwards
set -u
N=$1; shift
S=/verif/seeded/$N
W=$(mktemp -d /tmp/seedtry_XXXXXX)
mkdir -p $W/regexml && cp -r /repo/regexml/src $W/regexml/src
( cd $W && patch -s -p1 < $S/patch.diff ) || { echo "PATCH DOES NOT APPLY"; rm -rf $W; exit 3; }
cd /verif
ids="$@"
[ -z "$ids" ] && ids=$(python3 -c "import json;print(' '.join(c['property_id'] for c in json.load(open('MANIFEST.json'))['checks']))")
R=build/seedres_$N.txt; : > $R
for p in $ids; do
  VERIF_REPO=$W VERIF_EVIDENCE_DIR=build/seeded_ev_$N ./check $p > build/seed_out_${N}_$p.txt 2>&1; echo "$p rc=$?" >> $R
  grep -h "VIOLATION\|UNDECIDED" build/seed_out_${N}_$p.txt | cut -c1-300 >> $R
done
rm -rf $W build/seeded_ev_$N
echo "== $N"; cat $R
