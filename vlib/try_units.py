#!/usr/bin/env python3
"""dev helper: the deductive part only, every unit once, against a scratch copy of /repo's sources with a patch applied.
usage: try_units.py <name> <patch.diff>
prints one line:  <name> ok=<n> undecided=[units] refuted=[obligation ids]
(used for the false-alarm experiments with behaviour-preserving edits: `refuted` must stay empty)"""
import concurrent.futures as cf
import os
import shutil
import subprocess
import sys
import tempfile


def main():
    name, patch = sys.argv[1], os.path.abspath(sys.argv[2])
    w = tempfile.mkdtemp(prefix='tryunits_')
    try:
        os.makedirs(os.path.join(w, 'regexml'))
        shutil.copytree('/repo/regexml/src', os.path.join(w, 'regexml', 'src'))
        r = subprocess.run(['patch', '-s', '-p1', '-i', patch], cwd=w, capture_output=True, text=True)
        if r.returncode != 0:
            print(name, 'PATCH DOES NOT APPLY')
            return 3
        os.environ['VERIF_REPO'] = w
        sys.path.insert(0, '/verif')
        from vlib import driver
        from vlib.rustscan import Lost
        from vlib.assemble import UnitError
        units = driver.load_units()
        ok, und, ref = 0, [], []
        with cf.ThreadPoolExecutor(max_workers=8) as ex:
            futs = {ex.submit(driver.verify_unit, u, 'quick', 0): u for u in units.values()}
            for fu in cf.as_completed(futs):
                u = futs[fu]
                try:
                    res = fu.result()
                    if res['failures']:
                        ref += [f.oid for f in res['failures']]
                    else:
                        ok += 1
                except (driver.Undecided, Lost, UnitError) as e:
                    und.append(u.name + ':' + str(e).split('\n')[0][:90])
        print(name, 'ok=%d' % ok, 'undecided=%s' % und, 'refuted=%s' % sorted(set(ref)))
        return 1 if ref else 0
    finally:
        shutil.rmtree(w, ignore_errors=True)
        shutil.rmtree(os.path.join('/verif/build', 'p%d' % os.getpid()), ignore_errors=True)


sys.exit(main())
