"""Regenerates MANIFEST.json from the table below + the unit files (so that the
claimed set always matches what the units serve)."""
import json, os, sys
sys.path.insert(0, os.path.dirname(os.path.dirname(os.path.abspath(__file__))))
from vlib.driver import load_units, VERIF

LEVEL = {
 # pid: (text, note, design_ref)
}
NA = {
 'C18': 'quantifies over call histories, live iterators and thread schedules; a per-call contract cannot mention earlier calls, Kani has no threads and Verus would need the engine rewritten onto its permission types (DESIGN.md section 5, C18)',
}

def main():
    units = load_units()
    served = sorted({p for u in units.values() for p in u.tagged})
    table = json.load(open(os.path.join(VERIF, 'vlib', 'levels.json')))
    checks = []
    for pid in served:
        t = table.get(pid, {})
        checks.append({
            'property_id': pid,
            'quick_cmd': f'./check {pid} --tier quick',
            'thorough_cmd': f'./check {pid} --tier thorough',
            'evidence_file': f'/verif/evidence/{pid}.json',
            'replay_cmd_template': f'./check {pid} --replay {{path}}',
            'engine': 'verus-contracts',
            'level_claimed': {'category': 'proof', 'text': t.get('text', 'contracts on extracted functions discharged by Verus'), 'design_ref': f'DESIGN.md section 5 ({pid})'},
            'level_note': t.get('note', 'trusted base: /verif/prelude (A-STD, A-ICU, A-ITER, A-REFCELL, A-DISPATCH), extraction rewrites R0-R16; functions not under contract are not covered'),
            'technique': t.get('technique', 'contract-based deductive verification (Verus) of functions extracted from /repo on every run'),
        })
    na = dict(NA)
    allp = [json.loads(l)['id'] for l in open(os.path.join(VERIF, 'properties.jsonl')) if l.strip()]
    for pid in allp:
        if pid not in served and pid not in na:
            na[pid] = table.get(pid, {}).get('na', 'no contract unit built yet for this property (build in progress); not claimed')
    m = {
        'version': 1,
        'setup_cmd': './setup.sh',
        'hooks': {
            'guard': 'regexml_verif',
            'enable': 'RUSTFLAGS="--cfg regexml_verif" (Kani harnesses additionally cfg(kani)); the Verus route needs no hook',
            'baseline_off_cmd': 'cd /repo && cargo test --workspace --no-fail-fast --offline',
            'source_commits': json.load(open(os.path.join(VERIF, 'vlib', 'hooks.json'))),
            'add_only': True,
        },
        'engines': [{'name': 'verus-contracts', 'path': '/verif/check', 'serves_properties': served,
                     'kind_free_text': 'extract real functions from /repo as text, splice contracts from /verif/units/*.vu, verify with verus 0.2026.09.13; vacuity canary + assumption scan on every run'}],
        'checks': checks,
        'notes': 'exit 0 = every obligation of every unit carrying a clause for the property discharged (recorded findings are printed as KNOWN-FINDING lines); exit 1 = VIOLATION line(s); exit 2 = undecided (solver resources, unit file error, or the bounded stand-in could not run) and never an alarm. A unit that a rewording of the code put outside the verifier reach is replaced, for that run, by a bounded differential stand-in (labelled bounded, never counted as proved; DESIGN 0.9).',
        'not_applicable': [{'property_id': k, 'reason': v} for k, v in sorted(na.items()) if k not in served],
    }
    json.dump(m, open(os.path.join(VERIF, 'MANIFEST.json'), 'w'), indent=1)
    print('claimed', served, 'n/a', [x['property_id'] for x in m['not_applicable']])

main()
