"""Check driver: assemble units, run Verus, classify, report, write evidence."""
import concurrent.futures as cf
import glob
import json
import os
import re
import shutil
import subprocess
import sys
import time

from .assemble import parse_unit, assemble, VERIF, UnitError, repo_src, sha
from .rustscan import Lost

BUILD = os.path.join(VERIF, 'build')
VERUS = shutil.which('verus') or '/usr/local/bin/verus'

VERIFICATION_MSGS = (
    'postcondition not satisfied', 'precondition not satisfied', 'assertion failed',
    'invariant not satisfied', 'possible arithmetic underflow/overflow', 'possible division by zero',
    'decreases not satisfied', 'loop invariant', 'possible bit shift', 'recommendation not met',
    'unreachable', 'possible overflow', 'value may be out of range', 'failed this',
    'may not terminate', 'termination', 'could not prove', 'constructed value may fail',
)
RESOURCE_MSGS = ('rlimit', 'resource limit', 'timed out', 'timeout')


class Undecided(Exception):
    pass


def load_units():
    units = {}
    for p in sorted(glob.glob(os.path.join(VERIF, 'units', '*.vu'))):
        u = parse_unit(p)
        units[u.name] = u
    return units


def split_output(txt):
    """verus prints rustc json diagnostics line by line, then one JSON document."""
    diags, rest = [], []
    lines = txt.split('\n')
    doc = None
    for idx, ln in enumerate(lines):
        if ln.startswith('{"$message_type"'):
            try:
                diags.append(json.loads(ln))
            except Exception:
                rest.append(ln)
        elif ln.rstrip() == '{':
            try:
                doc = json.loads('\n'.join(lines[idx:]))
            except Exception:
                # trailing garbage: find matching end
                buf = '\n'.join(lines[idx:])
                end = buf.rfind('\n}')
                try:
                    doc = json.loads(buf[:end + 2])
                except Exception:
                    doc = None
            break
        else:
            rest.append(ln)
    return diags, doc, '\n'.join(rest)


def run_verus(path, rlimit, seed=None, timeout=900, only_fn=None):
    cmd = [VERUS, os.path.basename(path), '--output-json', '--time', '--multiple-errors', '40', '--rlimit', str(rlimit)]
    if seed is not None:
        cmd += ['--smt-option', f'smt.random_seed={seed}']
    if only_fn:
        cmd += ['--verify-root', '--verify-function', only_fn]
    cmd += ['--', '--error-format=json']
    t0 = time.time()
    try:
        p = subprocess.run(cmd, cwd=os.path.dirname(path), capture_output=True, text=True, timeout=timeout)
        txt = p.stderr + '\n' + p.stdout
        rc = p.returncode
    except subprocess.TimeoutExpired as e:
        txt = (e.stdout or '') + '\n' + (e.stderr or '') if isinstance(e.stdout, str) else ''
        rc = -9
    diags, doc, rest = split_output(txt)
    return {'cmd': ' '.join(cmd), 'rc': rc, 'diags': diags, 'doc': doc, 'rest': rest, 'wall': time.time() - t0}


def fn_of_line(asm, line):
    for f in asm.functions:
        a, b = f['gen_lines']
        if a <= line <= b:
            return f
    return None


class Failure:
    """one failed obligation"""

    def __init__(self, oid, props, message, rendered, fn, kind, where):
        self.oid, self.props, self.message, self.rendered = oid, props, message, rendered
        self.fn, self.kind, self.where = fn, kind, where

    def __repr__(self):
        return f'<Failure {self.oid} {self.props} {self.message}>'


def classify_diags(unit, asm, res):
    """-> (failures, infra_errors, resource_errors)"""
    failures, infra, resource = [], [], []
    for d in res['diags']:
        if d.get('level') != 'error':
            continue
        msg = d.get('message', '')
        low = msg.lower()
        if low.startswith('aborting due to') or 'previous error' in low:
            continue
        spans = d.get('spans', [])
        if any(k in low for k in RESOURCE_MSGS):
            resource.append(msg + ' :: ' + '; '.join(f"{s['line_start']}" for s in spans))
            continue
        if not any(k in low for k in VERIFICATION_MSGS):
            infra.append(d.get('rendered') or msg)
            continue
        prim = [s for s in spans if s.get('is_primary')]
        sec = [s for s in spans if not s.get('is_primary')]
        pl = prim[0]['line_start'] if prim else None
        porigin = asm.out.origin[pl - 1] if pl and pl <= len(asm.out.origin) else None
        pfn = fn_of_line(asm, pl) if pl else None
        clause = None
        for s in sec + prim:
            o = asm.out.origin[s['line_start'] - 1] if s['line_start'] <= len(asm.out.origin) else None
            if o and o[0] == 'clause':
                clause = asm.clauses[o[1]]
                break
        fnname = pfn['fn'] if pfn else None
        where = None
        if porigin and porigin[0] == 'src':
            where = f'{porigin[1]}:{porigin[2]}'
        if clause is not None:
            oid = clause.cid
            props = list(clause.props)
            if 'precondition' in low and where:
                oid = f'{clause.cid}@{where}'
            if 'decreases' in low and 'C06' not in props:
                props.append('C06')
            kind = 'clause'
        elif porigin and porigin[0] == 'src':
            kind = 'safety'
            what = 'decreases' if 'decreases' in low else ('overflow' if 'overflow' in low else
                   ('assert' if 'assertion' in low else 'precondition'))
            oid = f'{fnname}.safety.{what}@{where}'
            props = []
            fprops = pfn['props'] if pfn else []
            if 'decreases' in low:
                props = [p for p in ('C06',) if p in fprops] or ['C06']
            else:
                props = [p for p in ('C05',) if p in fprops] or ['C05']
        elif porigin and porigin[0] in ('proof', 'spec'):
            kind = 'proof'
            if porigin[0] == 'proof':
                oid = f'{porigin[1]}.proof-step@gen{pl}'
                props = list(pfn['props']) if pfn else list(unit.serves)
            else:
                oid = f'{unit.name}.lemma@{porigin[1]}:{porigin[2]}'
                props = list(unit.serves)
        elif porigin and porigin[0] == 'canary':
            kind = 'canary'
            oid = 'canary:' + porigin[1]
            props = []
        else:
            kind = 'other'
            oid = f'{unit.name}.gen{pl}'
            props = list(unit.serves)
        failures.append(Failure(oid, props, msg, d.get('rendered', ''), fnname, kind, where))
    doc = res['doc']
    if doc is None:
        infra.append('no JSON result document from verus (crash or timeout)\n' + res['rest'][-2000:])
    else:
        vr = doc.get('verification-results', {})
        if vr.get('encountered-vir-error'):
            infra.append('verus reported a VIR error\n' + res['rest'][-2000:])
        if not vr.get('success') and not failures and not infra and not resource:
            infra.append('verus reported failure without a classified diagnostic\n' + res['rest'][-2000:])
    return failures, infra, resource


def fn_results(doc, crate):
    out = {}
    if not doc:
        return out
    for m in doc.get('times-ms', {}).get('smt', {}).get('smt-run-module-times', []):
        for f in m.get('function-breakdown', []):
            name = f['function']
            if name.startswith(crate + '::'):
                name = name[len(crate) + 2:]
            out[name] = {'success': f.get('success'), 'smt_us': f.get('time-micros'), 'rlimit': f.get('rlimit'),
                         'mode': f.get('mode:')}
    return out


ASSUME_PAT = re.compile(r'\bassume\s*\(|\badmit\s*\(|external_body|assume_specification|verifier::external|'
                        r'exec_allows_no_decreases_clause|\buninterp\b|verifier::axiom|broadcast\s+axiom|\baxiom\b')


def assumption_scan(asm):
    """hits in prelude are the trusted base (listed); anywhere else => illegal."""
    listed, illegal = [], []
    for n, ln in enumerate(asm.out.lines):
        code = ln.split('//')[0]
        if ASSUME_PAT.search(code):
            o = asm.out.origin[n]
            if o and o[0] == 'prelude':
                listed.append(f'{o[1]}:{o[2]}: {ln.strip()}')
            elif o and o[0] == 'attr' and 'exec_allows_no_decreases_clause' in code:
                listed.append(f'TERMINATION NOT CHECKED for {o[1]} (attribute exec_allows_no_decreases_clause set by the unit file)')
            else:
                illegal.append(f'gen line {n + 1} ({o}): {ln.strip()}')
    return listed, illegal


def verify_unit(unit, tier, seed):
    """Assemble + verify (+ canary). Returns a result dict; raises Undecided."""
    os.makedirs(BUILD, exist_ok=True)
    rlimit = 30 if tier == 'quick' else 80
    r = {'unit': unit.name}
    asm = assemble(unit, canary=False)
    casm = assemble(unit, canary=True)
    bdir = os.path.join(BUILD, 'p%d' % os.getpid())
    os.makedirs(bdir, exist_ok=True)
    path = os.path.join(bdir, f'u_{unit.name}.rs')
    cpath = os.path.join(bdir, f'u_{unit.name}_canary.rs')
    open(path, 'w').write('\n'.join(asm.out.lines) + '\n')
    open(cpath, 'w').write('\n'.join(casm.out.lines) + '\n')
    listed, illegal = assumption_scan(asm)
    if illegal:
        raise Undecided(f'unit {unit.name}: assumption outside the trusted prelude: {illegal[:3]}')
    with cf.ThreadPoolExecutor(2) as ex:
        f1 = ex.submit(run_verus, path, rlimit, None)
        f2 = ex.submit(run_verus, cpath, rlimit, None)
        res, cres = f1.result(), f2.result()
    failures, infra, resource = classify_diags(unit, asm, res)
    if infra:
        raise Undecided(f'unit {unit.name}: unsupported construct / compile error (not a proof failure):\n' + '\n'.join(infra)[:3000])
    if resource:
        # retry with 4x rlimit and another seed
        res2 = run_verus(path, rlimit * 4, seed=(seed % 1000) + 1)
        failures, infra, resource = classify_diags(unit, asm, res2)
        if infra or resource:
            raise Undecided(f'unit {unit.name}: solver resources exhausted: {resource[:3]} {infra[:1]}')
        res = res2
    # thorough: stability under 2 more seeds
    unstable = []
    seeds_run = [None]
    if tier == 'thorough':
        base = {f.oid for f in failures}
        for k in (1, 2):
            sd = (seed + 7919 * k) % 100000
            rs = run_verus(path, rlimit, seed=sd)
            fl, inf, rsrc = classify_diags(unit, asm, rs)
            seeds_run.append(sd)
            now = {f.oid for f in fl}
            if inf or rsrc or now != base:
                unstable.append({'seed': sd, 'diff': sorted(now ^ base), 'resource': rsrc[:2]})
    # canary
    cfail, cinfra, cres_r = classify_diags(unit, casm, cres)
    if cinfra:
        raise Undecided(f'unit {unit.name}: canary assembly failed to compile: {cinfra[0][:1500]}')
    hit = set()
    for d in cres['diags']:
        if d.get('level') == 'error' and 'assertion failed' in d.get('message', ''):
            for s in d.get('spans', []):
                if s['line_start'] in casm.canary_lines:
                    hit.add(s['line_start'])
    hit_labels = {casm.canary_lines[ln] for ln in hit}
    all_labels = sorted(set(casm.canary_lines.values()))
    missing = [lbl for lbl in all_labels if lbl not in hit_labels]
    fr = fn_results(res['doc'], f'u_{unit.name}')
    r.update({'asm': asm, 'failures': failures, 'fn_results': fr, 'assumptions': listed,
              'canary_total': len(all_labels), 'canary_failed_as_expected': len(hit_labels), 'canary_missing': missing,
              'cmd': res['cmd'], 'wall': res['wall'] + cres['wall'], 'unstable': unstable, 'seeds': seeds_run,
              'verus_version': (res['doc'] or {}).get('verus', {}).get('version'),
              'verified': (res['doc'] or {}).get('verification-results', {}).get('verified'),
              'errors': (res['doc'] or {}).get('verification-results', {}).get('errors')})
    if missing:
        raise Undecided(f'unit {unit.name}: vacuity canary did not fail in: {missing} (contradictory precondition / invariant?)')
    if unstable:
        raise Undecided(f'unit {unit.name}: solver-unstable obligations: {unstable}')
    return r


def load_known():
    p = os.path.join(VERIF, 'known_findings.txt')
    out = []
    if os.path.exists(p):
        for ln in open(p, encoding='utf-8'):
            ln = ln.strip()
            if ln.startswith('finding:'):
                m = re.match(r'finding:\s*property=(\S+)\s+clause=(\S+)\s+fn-hash=(\S+)\s*::\s*(.*)$', ln)
                if m:
                    out.append({'property': m.group(1), 'clause': m.group(2), 'hash': m.group(3), 'text': m.group(4)})
                    continue
                # a finding identified by the failing input (pattern, flags, input as a JSON list)
                m = re.match(r'finding:\s*property=(\S+)\s+input=(\[.*?\])\s*::\s*(.*)$', ln)
                if m:
                    out.append({'property': m.group(1), 'clause': None, 'hash': None, 'input': tuple(json.loads(m.group(2))), 'text': m.group(3)})
    return out


def props_table():
    t = {}
    for ln in open(os.path.join(VERIF, 'properties.jsonl'), encoding='utf-8'):
        ln = ln.strip()
        if ln:
            p = json.loads(ln)
            t[p['id']] = p
    return t


def write_replay(pid, fl, ur, prop):
    d = os.path.join(VERIF, 'replays', pid)
    os.makedirs(d, exist_ok=True)
    safe = re.sub(r'[^\w.\-@]+', '_', fl.oid)
    path = os.path.join(d, safe + '.txt')
    asm = ur['asm']
    f = next((x for x in asm.functions if x['fn'] == fl.fn), None)
    base = fl.oid.split('@')[0]
    clause = asm.clauses.get(base)
    with open(path, 'w', encoding='utf-8') as fh:
        fh.write(f'FAILED OBLIGATION  {fl.oid}\n')
        fh.write(f'property           {pid}: {prop["title"]}\n')
        fh.write(f'statement          {prop["statement"]}\n\n')
        if clause is not None:
            fh.write(f'clause ({clause.kind}) tagged {clause.props}:\n    {clause.text}\n\n')
        fh.write(f'verifier message   {fl.message}\n')
        fh.write(f'unit               {ur["unit"]} (assembled from units/{ur["unit"]}.vu; reassemble with ./check)\n')
        fh.write(f'reproduce          cd /verif && ./check {pid} --tier quick   # or: {ur["cmd"]}\n\n')
        fh.write('--- verifier diagnostic (verbatim) ---\n')
        fh.write(fl.rendered + '\n')
        if f:
            fh.write(f'--- function under contract: {f["fn"]}  ({f["file"]}:{f["lines"][0]}-{f["lines"][1]}, sha256 {f["sha256"]}) as assembled ---\n')
            a, b = f['gen_lines']
            for n in range(a, b + 1):
                fh.write(f'{n:5d}  {asm.out.lines[n - 1]}\n')
        fh.write('\nVerus produces no counterexample; see the witness section appended below if a native witness search was registered for this clause.\n')
    return path


def run_property(pid, tier, seed, units, quiet=False):
    t0 = time.time()
    props = props_table()
    prop = props[pid]
    mine = [u for u in units.values() if pid in u.tagged]
    if not mine:
        print(f'UNDECIDED property={pid} reason=no unit serves this property')
        return 2, None
    results, undecided = [], []
    with cf.ThreadPoolExecutor(max_workers=min(8, len(mine))) as ex:
        futs = {ex.submit(verify_unit, u, tier, seed): u for u in mine}
        for fu in cf.as_completed(futs):
            u = futs[fu]
            try:
                results.append(fu.result())
            except (Undecided, Lost, UnitError) as e:
                undecided.append((u.name, str(e)))
    known = load_known()
    violations, known_hits, other = [], [], []
    for ur in results:
        for fl in ur['failures']:
            if pid not in fl.props:
                other.append(fl)
                continue
            fh = ur['asm'].fn_hash.get(fl.fn, '')
            base = fl.oid
            k = next((k for k in known if k['property'] == pid and k['clause'] == base and k['hash'] and fh.startswith(k['hash'])), None)
            if k:
                known_hits.append((fl, k))
            else:
                violations.append((fl, ur))
    # ---- bounded stand-in (a unit is undecided) / search for a failing input (an obligation is refuted)
    input_findings = [k for k in known if k['property'] == pid and k.get('input')]
    standin = None
    explore = not (undecided or violations) and not os.environ.get('VERIF_NO_EXPLORE')
    if undecided or violations or explore:
        # every run adds the bounded exploration, with a fixed internal seed per tier (the deciding step stays the verifier)
        standin = run_witness(pid, tier, (EXPLORE_SEED[tier if tier in EXPLORE_SEED else 'quick'] if explore else seed), {k['input'] for k in known if k.get('input')})
    # ---- evidence
    n_fn = sum(len(ur['fn_results']) for ur in results)
    n_ok = sum(1 for ur in results for v in ur['fn_results'].values() if v['success'])
    clauses = [(c, ur) for ur in results for c in ur['asm'].clauses.values() if pid in c.props]
    failed_ids = {fl.oid.split('@')[0] for ur in results for fl in ur['failures']}
    fns = []
    for ur in results:
        for f in ur['asm'].functions:
            fr = ur['fn_results'].get(f['fn'], {})
            fns.append({'unit': ur['unit'], 'fn': f['fn'], 'file': f['file'], 'lines': f['lines'], 'sha256': f['sha256'],
                        'serves': f['props'], 'rewrites': f['rewrites'], 'loops': f['loops'], 'verified': fr.get('success'),
                        'smt_us': fr.get('smt_us'), 'rlimit': fr.get('rlimit'), 'tool': 'verus'})
    trusted = sorted({f'prelude file {t}' for ur in results for t in ur['asm'].trusted})
    assumptions = sorted({a for ur in results for a in ur['assumptions']})
    samples = [{'clause': c.cid, 'kind': c.kind, 'text': c.text, 'unit': ur['unit'],
                'status': 'FAILED' if c.cid in failed_ids else 'discharged'} for c, ur in clauses[:12]]
    ev = {
        'property_id': pid, 'tier': tier, 'seed': seed, 'level': 'proof',
        'coverage': {
            'obligations': n_fn, 'discharged': n_ok,
            'checker_cmd': '; '.join(sorted({ur['cmd'] for ur in results})) or 'verus (no unit reached the solver)',
            'trusted_base': trusted + [f'{len(assumptions)} external_body/uninterp/assume_specification items in those prelude files (listed under assumptions)'],
            'obligation_unit': 'one obligation = one function or lemma for which Verus generated and checked SMT queries '
                               '(its requires at call sites, ensures, invariants, decreases, index/overflow/unwrap safety)',
            'named_clauses_for_property': len(clauses),
            'named_clauses_failed': sorted(c.cid for c, _ in clauses if c.cid in failed_ids),
            'functions_under_contract': fns,
            'units': [{'unit': ur['unit'], 'verified': ur['verified'], 'errors': ur['errors'], 'wall_s': round(ur['wall'], 2),
                       'canary': f"{ur['canary_failed_as_expected']}/{ur['canary_total']} assert(false) canaries failed as required",
                       'seeds': ur['seeds'], 'notes': next(u for u in mine if u.name == ur['unit']).notes} for ur in results],
            'undecided_units': [{'unit': n, 'reason': r[:600]} for n, r in undecided],
            'bounded_parts': [b for u in mine for b in u.bounded],
            'samples': samples or [{'note': 'no named clause reached'}],
            'known_findings_hit': [f'{fl.oid}: {k["text"]}' for fl, k in known_hits],
            'known_findings_listed': [k['text'] for k in input_findings],
            'bounded_stand_in': (None if not undecided else {
                'label': 'bounded', 'never_counted_as_proved': True, 'stands_in_for_units': [n for n, _ in undecided],
                'what': 'differential check of the public API against an independent oracle (python re on the common fragment) '
                        'and metamorphic relations, see vlib/witness.py', 'explored': (standin or {}).get('explored'),
                'error': (standin or {}).get('error'), 'failures_for_this_property': len((standin or {}).get('failures', []))}),
            'bounded_exploration': (None if not explore else {
                'label': 'bounded', 'never_counted_as_proved': True, 'seed': EXPLORE_SEED.get(tier, 0),
                'what': 'differential exploration of the public API (vlib/witness.py) in addition to the proof; fixed internal seed per tier', 'explored': (standin or {}).get('explored'),
                'error': (standin or {}).get('error'), 'failures_for_this_property': len((standin or {}).get('failures', []))}),
            'witness_search': (None if not violations else {'explored': (standin or {}).get('explored'), 'error': (standin or {}).get('error'),
                                                             'failing_inputs_found': len((standin or {}).get('failures', []))}),
            'other_property_failures_seen': sorted({fl.oid for fl in other}),
            'verus_version': next((ur['verus_version'] for ur in results if ur['verus_version']), None),
            'solver_time_ms': round(sum((v['smt_us'] or 0) for ur in results for v in ur['fn_results'].values()) / 1000, 1),
        },
        'assumptions': assumptions + [
            'A-ARITH/A-STD/A-ICU/A-ITER/A-REFCELL/A-DISPATCH as described in DESIGN.md section 3.3',
            'extraction rewrites R0..R14 (DESIGN.md 3.1); per function list under functions_under_contract[].rewrites',
            'code outside functions_under_contract is not covered'],
        'wall_s': round(time.time() - t0, 2),
        'violations': len(violations),
    }
    # evidence of record is only written for /repo itself; scratch trees (self-test mutants) go elsewhere
    evdir = os.path.join(VERIF, 'evidence') if os.path.realpath(os.environ.get('VERIF_REPO', '/repo')) == '/repo' \
        else os.path.join(BUILD, 'evidence_scratch')
    if os.environ.get('VERIF_EVIDENCE_DIR'):   # dev helper (seeded-change trials): keep the evidence of record untouched
        evdir = os.path.join(VERIF, os.environ['VERIF_EVIDENCE_DIR'])
    if tier == 'thorough' and not os.environ.get('VERIF_EVIDENCE_DIR'):
        ev['coverage']['selftest_kill_matrix'] = selftest(pid, seed)
        ev['coverage']['selftest_note'] = ('archived seeded changes of this property (/verif/seeded), each applied to a scratch copy and '
                                           'checked with the quick tier; informative only: a surviving or undecided change does not fail the check')
        ev['wall_s'] = round(time.time() - t0, 2)
    os.makedirs(evdir, exist_ok=True)
    with open(os.path.join(evdir, pid + '.json'), 'w', encoding='utf-8') as fh:
        json.dump(ev, fh, indent=1)
    # ---- report
    for fl, k in known_hits:
        print(f'KNOWN-FINDING: property={pid} {fl.oid} :: {k["text"]}')
    for k in input_findings:
        print(f'KNOWN-FINDING: property={pid} input={json.dumps(list(k["input"]))} :: {k["text"]}')
    for n, r in undecided:
        print(f'UNDECIDED property={pid} unit={n} reason={r[:1500]}')
    rc = 0
    seen = set()
    wfails = (standin or {}).get('failures', [])
    from . import witness as _w
    for fl, ur in violations:
        if fl.oid in seen:
            continue
        seen.add(fl.oid)
        path = write_replay(pid, fl, ur, prop)
        tail = 'no-failing-input-found'
        if wfails:
            with open(path, 'a', encoding='utf-8') as fh:
                fh.write('\n--- failing input (bounded search through the public API; it shows that the property is violated on this tree, '
                         'it is not derived from the refuted obligation) ---\n' + _w.replay_text(wfails[0]))
            tail = 'replayed=yes pattern=%s flags=%s input=%s' % (json.dumps(wfails[0]['pattern']), json.dumps(wfails[0]['flags']), json.dumps(wfails[0]['input']))
        print(f'VIOLATION property={pid} replay={path} obligation={fl.oid} verifier="{fl.message}" {tail}')
        rc = 1
    if explore and standin is not None and not standin.get('error') and wfails:
        d = os.path.join(VERIF, 'replays', pid)
        os.makedirs(d, exist_ok=True)
        shown = set()
        for f in wfails:
            if f['what'] in shown or len(shown) >= 3:
                continue
            shown.add(f['what'])
            path = os.path.join(d, 'bounded_exploration_%d.txt' % len(shown))
            with open(path, 'w', encoding='utf-8') as fh:
                fh.write('BOUNDED EXPLORATION (not a proof obligation)\n' + _w.replay_text(f))
            print(f'VIOLATION property={pid} replay={path} obligation=bounded-exploration:{f["pid"]} pattern={json.dumps(f["pattern"])} '
                  f'flags={json.dumps(f["flags"])} input={json.dumps(f["input"])} expected={json.dumps(f["expected"][:120])} actual={json.dumps(f["actual"][:120])}')
        rc = 1
    if undecided:
        if standin is None or standin.get('error'):
            rc = max(rc, 2) if rc != 1 else 1
            print(f'UNDECIDED property={pid} reason=the bounded stand-in could not run: {(standin or {}).get("error")}')
        elif wfails and rc == 0:
            d = os.path.join(VERIF, 'replays', pid)
            os.makedirs(d, exist_ok=True)
            shown = set()
            for f in wfails:
                if f['what'] in shown or len(shown) >= 3:
                    continue
                shown.add(f['what'])
                path = os.path.join(d, 'bounded_stand_in_%d.txt' % len(shown))
                with open(path, 'w', encoding='utf-8') as fh:
                    fh.write('BOUNDED STAND-IN for undecided unit(s) %s (not a proof obligation)\n' % ', '.join(n for n, _ in undecided) + _w.replay_text(f))
                print(f'VIOLATION property={pid} replay={path} obligation=bounded-stand-in:{f["pid"]} pattern={json.dumps(f["pattern"])} '
                      f'flags={json.dumps(f["flags"])} input={json.dumps(f["input"])} expected={json.dumps(f["expected"][:120])} actual={json.dumps(f["actual"][:120])}')
            rc = 1
        elif rc == 0:
            print(f'BOUNDED-STAND-IN property={pid} units={",".join(n for n, _ in undecided)} explored={json.dumps(standin.get("explored"))} '
                  'failures=0 (labelled bounded; these units are not counted as proved)')
    if not quiet:
        print(f'[{pid}] units={len(results)}/{len(mine)} functions/lemmas checked={n_fn} discharged={n_ok} '
              f'named clauses for {pid}={len(clauses)} violations={len(seen)} known={len(known_hits)} '
              f'undecided={len(undecided)} wall={ev["wall_s"]}s -> exit {rc}')
    return rc, ev


def selftest(pid, seed):
    """thorough tier: run the quick check of this property against every archived seeded change that names it
    (scratch copies of the sources outside /repo and /verif, removed afterwards; three at a time). Returns the kill matrix."""
    import tempfile
    dirs = []
    for d in sorted(glob.glob(os.path.join(VERIF, 'seeded', '*'))):
        try:
            meta = json.load(open(os.path.join(d, 'meta.json')))
        except Exception:
            continue
        if meta.get('property') == pid:
            dirs.append(d)

    def one(d):
        scratch = tempfile.mkdtemp(prefix='verif_selftest_')
        try:
            os.makedirs(os.path.join(scratch, 'regexml'))
            shutil.copytree(os.path.join(os.environ.get('VERIF_REPO', '/repo'), 'regexml', 'src'), os.path.join(scratch, 'regexml', 'src'))
            pr = subprocess.run(['patch', '-p1', '-s', '-d', scratch, '-i', os.path.join(d, 'patch.diff')], capture_output=True, text=True)
            if pr.returncode != 0:
                return {'change': os.path.basename(d), 'result': 'skipped: patch no longer applies'}
            env = dict(os.environ, VERIF_REPO=scratch, VERIF_EVIDENCE_DIR='build/selftest_ev_' + os.path.basename(d), VERIF_SEED=str(seed))
            cr = subprocess.run([os.path.join(VERIF, 'check'), pid, '--tier', 'quick'], cwd=VERIF, env=env, capture_output=True, text=True, timeout=3600)
            obl = sorted(set(re.findall(r'obligation=(\S+)', cr.stdout)))
            return {'change': os.path.basename(d), 'exit': cr.returncode,
                    'result': 'killed' if cr.returncode == 1 else ('undecided' if cr.returncode == 2 else 'survived'),
                    'obligations': obl[:6]}
        finally:
            shutil.rmtree(scratch, ignore_errors=True)
            shutil.rmtree(os.path.join(VERIF, 'build', 'selftest_ev_' + os.path.basename(d)), ignore_errors=True)

    with cf.ThreadPoolExecutor(max_workers=3) as ex:
        return list(ex.map(one, dirs))


EXPLORE_SEED = {'quick': 0, 'thorough': 11}


def run_witness(pid, tier, seed, known_inputs):
    """bounded differential search through the public API; failures that bear on `pid`, minus the listed findings"""
    try:
        from . import witness
        out = witness.cached_search(os.environ.get('VERIF_REPO', '/repo'), tier if tier in witness.BOUNDS else 'quick', seed)
    except Exception as e:
        return {'error': str(e)[-1500:], 'failures': [], 'explored': None}
    fs = [f for f in out['failures'] if pid in f.get('pids', [f['pid']]) and (f['pattern'], f['flags'], f['input']) not in known_inputs]
    return {'failures': fs, 'explored': out['explored'], 'error': None}


def main(argv):
    import argparse
    ap = argparse.ArgumentParser()
    ap.add_argument('pid')
    ap.add_argument('--tier', default=os.environ.get('VERIF_TIER', 'quick'))
    ap.add_argument('--replay')
    a = ap.parse_args(argv)
    seed = int(os.environ.get('VERIF_SEED', '0') or 0)
    tier = a.tier if a.tier in ('quick', 'thorough') else 'quick'
    if a.replay:
        print(open(a.replay, encoding='utf-8').read())
        return 0
    try:
        units = load_units()
    except UnitError as e:
        print(f'UNDECIDED reason=unit file error: {e}')
        return 2
    if a.pid == 'all':
        rc = 0
        for pid in sorted({p for u in units.values() for p in u.serves}):
            r, _ = run_property(pid, tier, seed, units)
            rc = max(rc, r) if r != 1 else 1 if rc != 1 else 1
        return rc
    r, _ = run_property(a.pid, tier, seed, units)
    shutil.rmtree(os.path.join(BUILD, 'p%d' % os.getpid()), ignore_errors=True)
    return r
