// SPECIFICATION of a greedy variable-length repeat r{min,max} (C02: a greedy quantifier prefers more repetitions,
// each repetition explores the body's results in the body's own order of preference; C20 / C01: r{n,m} denotes
// n..m-fold concatenation — EVERY way of splitting the input into at most `max` repetitions is reachable).
// greedy_rep: the results, in order of preference, once k repetitions have been taken and the input position is q:
// first everything reachable through one more repetition (if k < max), then — if k >= min — stopping here.
pub open spec fn greedy_rep(op: &Operation, m: &ReMatcher, q: int, k: int, min: int, max: int) -> Seq<usize>
    decreases 2 * (max - k), 0int
{
    (if k < max { greedy_flat(iter_spec(op, m, q), op, m, k + 1, min, max) } else { Seq::<usize>::empty() })
    + (if k >= min { seq![q as usize] } else { Seq::<usize>::empty() })
}
// for each result q of the k-th repetition (in the body's order): everything reachable from q
pub open spec fn greedy_flat(items: Seq<usize>, op: &Operation, m: &ReMatcher, k: int, min: int, max: int) -> Seq<usize>
    decreases 2 * (max - k) + 1, items.len()
{
    if items.len() == 0 || k > max { Seq::<usize>::empty() }
    else { greedy_rep(op, m, items[0] as int, k, min, max) + greedy_flat(items.skip(1), op, m, k, min, max) }
}
// r{min,max} started at p
pub open spec fn greedy_spec(op: &Operation, m: &ReMatcher, p: int, min: int, max: int) -> Seq<usize> {
    greedy_rep(op, m, p, 0, min, max)
}

// amount of iterator work below a node of that search tree (termination measure, C06): finite because every
// body iterator is finite (A-ITER) and the depth is bounded by max
pub open spec fn gw_rep(op: &Operation, m: &ReMatcher, q: int, k: int, max: int) -> nat
    decreases 2 * (max - k), 0int
{
    if k < max { gw_flat(iter_spec(op, m, q), op, m, k + 1, max) } else { 0 }
}
pub open spec fn gw_flat(items: Seq<usize>, op: &Operation, m: &ReMatcher, k: int, max: int) -> nat
    decreases 2 * (max - k) + 1, items.len()
{
    if items.len() == 0 || k > max { 0 } else { 1 + gw_rep(op, m, items[0] as int, k, max) + gw_flat(items.skip(1), op, m, k, max) }
}
