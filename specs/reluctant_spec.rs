// SPECIFICATION shared by the reluctant iterators (fixed and variable length body), C02/C20/C06:
// a reluctant quantifier prefers fewer repetitions: the first result is the position after `min`
// repetitions, every further result takes one more repetition, up to `max`.
// Each repetition takes the *first* match of the body at its position (first_of).
pub open spec fn first_of(op: &Operation, m: &ReMatcher, p: int) -> int { iter_spec(op, m, p)[0] as int }

pub open spec fn rem_started(op: &Operation, m: &ReMatcher, pos: int, budget: int) -> Seq<usize>
    decreases budget
{
    if budget > 0 && child_matches(op, m, pos) {
        seq![first_of(op, m, pos) as usize] + rem_started(op, m, first_of(op, m, pos), budget - 1)
    } else {
        Seq::<usize>::empty()
    }
}
pub open spec fn rem_unstarted(op: &Operation, m: &ReMatcher, pos: int, count: int, min: int, max: int) -> Seq<usize>
    decreases min - count
{
    if count < min {
        if child_matches(op, m, pos) { rem_unstarted(op, m, first_of(op, m, pos), count + 1, min, max) } else { Seq::<usize>::empty() }
    } else {
        seq![pos as usize] + rem_started(op, m, pos, max - count)
    }
}
// C06: the body consumes input whenever it matches
pub open spec fn child_advances(op: &Operation, m: &ReMatcher) -> bool {
    forall|q: int| 0 <= q && #[trigger] child_matches(op, m, q) ==> first_of(op, m, q) > q
}
pub open spec fn child_in_bounds(op: &Operation, m: &ReMatcher) -> bool {
    forall|q: int| 0 <= q && #[trigger] child_matches(op, m, q) ==> first_of(op, m, q) <= m.search@.len()
}
