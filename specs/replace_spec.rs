// SPECIFICATION (definitions only, written from the C15 / C04 / C13 statements).
// (is_digit, dval, ref_num: specs/replace_spec_num.rs)

pub open spec fn opt_prepend(a: Seq<char>, t: Option<Seq<char>>) -> Option<Seq<char>> {
    match t { Some(x) => Some(a + x), None => None }
}

// Expansion of the replacement string from index i for the match m. None = the replacement is invalid.
pub open spec fn expand(r: Seq<char>, i: int, maxcap: int, search: Seq<char>, m: MatchSpan) -> Option<Seq<char>>
    decreases r.len() - i
{
    if i < 0 || i >= r.len() {
        Some(Seq::<char>::empty())
    } else if r[i] == '\\' {
        // \$ stands for $ and \\ for \ ; a \ not followed by $ or \ is an error
        if i + 1 < r.len() && (r[i + 1] == '\\' || r[i + 1] == '$') {
            opt_prepend(seq![r[i + 1]], expand(r, i + 2, maxcap, search, m))
        } else {
            None
        }
    } else if r[i] == '$' {
        // a $ not followed by a digit is an error
        if i + 1 < r.len() && is_digit(r[i + 1]) {
            let d = dval(r[i + 1]);
            // a single digit unless there are more than 9 groups
            let nj = if maxcap <= 9 { (d, i + 2) } else { ref_num(r, i + 2, d, maxcap) };
            // a group that did not participate or does not exist contributes nothing
            let g = if nj.0 <= maxcap { group_text(search, m, nj.0) } else { Seq::<char>::empty() };
            // (ref_num always returns an index in [i + 2, r.len()]; written this way so that termination is evident)
            let j = if i + 2 <= nj.1 && nj.1 <= r.len() { nj.1 } else { i + 2 };
            opt_prepend(g, expand(r, j, maxcap, search, m))
        } else {
            None
        }
    } else {
        opt_prepend(seq![r[i]], expand(r, i + 1, maxcap, search, m))
    }
}

// what one match is replaced by
pub open spec fn substitute(r: Seq<char>, literal: bool, maxcap: int, search: Seq<char>, m: MatchSpan) -> Option<Seq<char>> {
    if literal { Some(r) } else { expand(r, 0, maxcap, search, m) }
}

// The whole result from scan position `pos` on: text outside matches is copied unchanged, each match is
// replaced by its substitution; the scan resumes at the end of the match (one further after an empty
// match, whose skipped character is copied like any other text outside matches).
pub open spec fn replace_from(program: &ReProgram, search: Seq<char>, r: Seq<char>, literal: bool, maxcap: int, pos: int) -> Option<Seq<char>>
    decreases search.len() - pos
{
    if 0 <= pos < search.len() && oracle(program, search, pos) is Some {
        let m = oracle(program, search, pos)->0;
        if pos <= m.start <= m.end <= search.len() {
            let next = if m.end <= pos { pos + 1 } else { m.end };
            let skipped = if m.end <= pos { search.subrange(pos, pos + 1) } else { Seq::<char>::empty() };
            match (substitute(r, literal, maxcap, search, m), replace_from(program, search, r, literal, maxcap, next)) {
                (Some(x), Some(t)) => Some(search.subrange(pos, m.start) + x + skipped + t),
                _ => None,
            }
        } else {
            None   // unreachable for a well-formed oracle (span_wf)
        }
    } else if 0 <= pos <= search.len() {
        Some(search.subrange(pos, search.len() as int))
    } else {
        Some(Seq::<char>::empty())
    }
}
