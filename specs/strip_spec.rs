// SPECIFICATION of flag x (C14), written from the statement:
// "the whitespace characters U+0009, U+000A, U+000D and U+0020 occurring in the pattern outside a character
//  class expression are removed before compilation ... Whitespace inside [...] is kept and matches itself;
//  characters other than those four are never removed."
pub open spec fn ws4(c: char) -> bool {
    c == '\u{9}' || c == '\u{A}' || c == '\u{D}' || c == '\u{20}'
}

// Scanner state before character k of the *kept* text: class nesting depth, and whether the previous kept
// character was an unescaped backslash. Removed characters do not change the state.
pub open spec fn strip_from(p: Seq<char>, k: int, depth: int, escaped: bool) -> Seq<char>
    decreases p.len() - k
{
    if k < 0 || k >= p.len() {
        Seq::<char>::empty()
    } else {
        let c = p[k];
        if c == '\\' && !escaped {
            seq![c] + strip_from(p, k + 1, depth, true)
        } else if c == '[' && !escaped {
            seq![c] + strip_from(p, k + 1, depth + 1, false)
        } else if c == ']' && !escaped {
            seq![c] + strip_from(p, k + 1, depth - 1, false)
        } else if depth == 0 && ws4(c) {
            strip_from(p, k + 1, depth, escaped)            // removed: outside a class
        } else {
            seq![c] + strip_from(p, k + 1, depth, false)
        }
    }
}

pub open spec fn strip_spec(p: Seq<char>) -> Seq<char> { strip_from(p, 0, 0, false) }
