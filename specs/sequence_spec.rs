// SPECIFICATION of a sequence of terms (C01: sequence = concatenation; C02: the preference of an earlier term
// dominates that of a later term): the results of ops[k..] started at p, in depth-first order.
pub open spec fn seq_from(ops: Seq<Operation>, k: int, m: &ReMatcher, p: int) -> Seq<usize>
    decreases 2 * (ops.len() - k), 0int
{
    if k < 0 || k >= ops.len() { seq![p as usize] } else { seq_flat(iter_spec(&ops[k], m, p), ops, k + 1, m) }
}
// for each result q of the current term (in its own order of preference): the results of the remaining terms from q
pub open spec fn seq_flat(items: Seq<usize>, ops: Seq<Operation>, k: int, m: &ReMatcher) -> Seq<usize>
    decreases 2 * (ops.len() - k) + 1, items.len()
{
    if items.len() == 0 || k < 0 || k > ops.len() { Seq::<usize>::empty() } else { seq_from(ops, k, m, items[0] as int) + seq_flat(items.skip(1), ops, k, m) }
}

// amount of iterator work left below a node of the search tree (termination measure, C06)
pub open spec fn work_from(ops: Seq<Operation>, k: int, m: &ReMatcher, p: int) -> nat
    decreases 2 * (ops.len() - k), 0int
{
    if k < 0 || k >= ops.len() { 0 } else { work_flat(iter_spec(&ops[k], m, p), ops, k + 1, m) }
}
pub open spec fn work_flat(items: Seq<usize>, ops: Seq<Operation>, k: int, m: &ReMatcher) -> nat
    decreases 2 * (ops.len() - k) + 1, items.len()
{
    if items.len() == 0 || k < 0 || k > ops.len() { 0 } else { 1 + work_from(ops, k, m, items[0] as int) + work_flat(items.skip(1), ops, k, m) }
}
