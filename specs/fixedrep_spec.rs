// SPECIFICATION for repetitions of a fixed-length body (C01/C02/C20):
// r{n,m} = n..m-fold concatenation; a greedy quantifier prefers more repetitions, a reluctant one fewer.

// the body matches k times in a row starting at p (each repetition is `len` characters long)
pub open spec fn run_ok(op: &Operation, m: &ReMatcher, p: int, len: int, k: int) -> bool {
    forall|j: int| 0 <= j < k ==> child_matches(op, m, #[trigger] (p + j * len))
}

// positions p + len*k for k = hi, hi-1, ..., lo   (greedy order)
pub open spec fn desc_positions(p: int, len: int, hi: int, lo: int) -> Seq<usize>
    decreases hi - lo + 1
{
    if hi < lo { Seq::<usize>::empty() } else { seq![(p + len * hi) as usize] + desc_positions(p, len, hi - 1, lo) }
}

// positions p + len*k for k = lo, lo+1, ..., hi   (reluctant order)
pub open spec fn asc_positions(p: int, len: int, lo: int, hi: int) -> Seq<usize>
    decreases hi - lo + 1
{
    if hi < lo { Seq::<usize>::empty() } else { seq![(p + len * lo) as usize] + asc_positions(p, len, lo + 1, hi) }
}

// K is the number of repetitions available: the longest run, capped by max
pub open spec fn is_run_count(op: &Operation, m: &ReMatcher, p: int, len: int, max: int, k: int) -> bool {
    &&& 0 <= k <= max
    &&& run_ok(op, m, p, len, k)
    &&& (k < max ==> !child_matches(op, m, p + k * len))
}
