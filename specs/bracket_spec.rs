// SPECIFICATION of the counted quantifier (C07): "{n,m} with n>m or malformed bounds" is rejected; accepted forms
// are {n}, {n,} and {n,m} with decimal n, m that fit in usize and n <= m.
#[verifier::opaque]
pub open spec fn digit_run_end(p: Seq<char>, k: int) -> int
    decreases p.len() - k
{
    if 0 <= k < p.len() && '0' <= p[k] && p[k] <= '9' { digit_run_end(p, k + 1) } else { k }
}

pub ghost struct Bounds { pub min: nat, pub max: nat, pub next: int }

// the text at k (just after '{'): Some(bounds) if it is a well-formed quantifier body, None otherwise
pub open spec fn bracket_spec(p: Seq<char>, k: int) -> Option<Bounds> {
    let e1 = digit_run_end(p, k);
    if e1 == k || e1 >= p.len() { None }                       // no digit, or input ends
    else {
        let n = digits_value(p.subrange(k, e1));
        if n > usize::MAX { None }
        else if p[e1] == '}' { Some(Bounds { min: n, max: n, next: e1 + 1 }) }
        else if p[e1] != ',' || e1 + 1 >= p.len() { None }
        else if p[e1 + 1] == '}' { Some(Bounds { min: n, max: usize::MAX as nat, next: e1 + 2 }) }
        else {
            let e2 = digit_run_end(p, e1 + 1);
            if e2 == e1 + 1 { None }
            else {
                let m = digits_value(p.subrange(e1 + 1, e2));
                if m > usize::MAX || m < n || e2 >= p.len() || p[e2] != '}' { None }
                else { Some(Bounds { min: n, max: m, next: e2 + 1 }) }
            }
        }
    }
}

// (proved) one unfolding of digit_run_end, used by the loop invariants of `bracket`
pub proof fn lemma_digit_run_step(p: Seq<char>, k: int)
    requires 0 <= k < p.len(), '0' <= p[k], p[k] <= '9',
    ensures digit_run_end(p, k) == digit_run_end(p, k + 1),
{
    reveal_with_fuel(digit_run_end, 2);
}
pub proof fn lemma_digit_run_stop(p: Seq<char>, k: int)
    requires !(0 <= k < p.len() && '0' <= p[k] && p[k] <= '9'),
    ensures digit_run_end(p, k) == k,
{
    reveal_with_fuel(digit_run_end, 2);
}
