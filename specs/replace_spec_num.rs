// SPECIFICATION shared by `$N` (C15) and `\\N` (C19): the longest run of digits that forms a number not exceeding `limit`.
pub open spec fn is_digit(c: char) -> bool { '0' <= c && c <= '9' }
pub open spec fn dval(c: char) -> int { c as int - '0' as int }
pub open spec fn ref_num(r: Seq<char>, j: int, n: int, limit: int) -> (int, int)
    decreases r.len() - j
{
    if 0 <= j < r.len() && is_digit(r[j]) && n * 10 + dval(r[j]) <= limit {
        ref_num(r, j + 1, n * 10 + dval(r[j]), limit)
    } else {
        (n, j)
    }
}
