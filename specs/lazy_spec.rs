// SPECIFICATION of a reluctant variable-length repeat r{min,max}? (C02: a reluctant quantifier prefers fewer
// repetitions; C01 / C20: every way of matching each repetition is reachable, in the body's order of preference).
// lazy_rep: the results, in order of preference, once k repetitions have been taken and the input position is q:
// first — if k >= min — stopping here, then everything reachable through one more repetition (if k < max).
pub open spec fn lazy_rep(op: &Operation, m: &ReMatcher, q: int, k: int, min: int, max: int) -> Seq<usize>
    decreases 2 * (max - k), 0int
{
    (if k >= min { seq![q as usize] } else { Seq::<usize>::empty() })
    + (if k < max { lazy_flat(iter_spec(op, m, q), op, m, k + 1, min, max) } else { Seq::<usize>::empty() })
}
pub open spec fn lazy_flat(items: Seq<usize>, op: &Operation, m: &ReMatcher, k: int, min: int, max: int) -> Seq<usize>
    decreases 2 * (max - k) + 1, items.len()
{
    if items.len() == 0 || k > max { Seq::<usize>::empty() }
    else { lazy_rep(op, m, items[0] as int, k, min, max) + lazy_flat(items.skip(1), op, m, k, min, max) }
}
pub open spec fn lazy_spec(op: &Operation, m: &ReMatcher, p: int, min: int, max: int) -> Seq<usize> {
    lazy_rep(op, m, p, 0, min, max)
}
// what is reachable from q (k repetitions taken) through at least one more repetition
pub open spec fn lazy_more(op: &Operation, m: &ReMatcher, q: int, k: int, min: int, max: int) -> Seq<usize> {
    if k < max { lazy_flat(iter_spec(op, m, q), op, m, k + 1, min, max) } else { Seq::<usize>::empty() }
}
// termination measure (C06): the work below a node of that search tree
pub open spec fn lw_more(op: &Operation, m: &ReMatcher, q: int, k: int, max: int) -> nat
    decreases 2 * (max - k), 0int
{
    if k < max { lw_flat(iter_spec(op, m, q), op, m, k + 1, max) } else { 0 }
}
pub open spec fn lw_flat(items: Seq<usize>, op: &Operation, m: &ReMatcher, k: int, max: int) -> nat
    decreases 2 * (max - k) + 1, items.len()
{
    if items.len() == 0 || k > max { 0 } else { 2 + lw_more(op, m, items[0] as int, k, max) + lw_flat(items.skip(1), op, m, k, max) }
}
