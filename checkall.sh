#!/bin/bash
# run every claimed property's quick check in parallel (dev helper; the harness calls ./check <id> itself)
cd "$(dirname "$0")"
ids=$(python3 -c "import json;print(' '.join(c['property_id'] for c in json.load(open('MANIFEST.json'))['checks']))")
for p in $ids; do ./check $p --tier ${1:-quick} > build/out_$p.txt 2>&1 & done; wait
for p in $ids; do tail -1 build/out_$p.txt; grep -h "VIOLATION\|UNDECIDED\|KNOWN-FINDING" build/out_$p.txt | cut -c1-250; done
