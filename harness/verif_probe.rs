// Probe binary used by /verif's bounded differential stand-in and witness search (vlib/witness.py).
// It is copied into a scratch copy of the repository as an example target and only uses the public API.
// Protocol (one case per line, fields separated by TAB, with \\ \t \n \r escaped):
//   in : id dialect flags pattern input replacement
//   out: id TAB op TAB result      (op: compile | is_match | replace | tokens | analyze), then "id TAB done"
// A case that does not finish within the time limit prints "id TAB TIMEOUT" and ends the process (exit 3).
use regexml::{AnalyzeEntry, MatchEntry, Regex};
use std::io::{self, BufRead, Write};
use std::sync::mpsc;
use std::thread;
use std::time::Duration;

fn unesc(s: &str) -> String {
    let mut out = String::new();
    let mut it = s.chars();
    while let Some(c) = it.next() {
        if c == '\\' {
            match it.next() {
                Some('t') => out.push('\t'),
                Some('n') => out.push('\n'),
                Some('r') => out.push('\r'),
                Some('\\') => out.push('\\'),
                Some(o) => { out.push('\\'); out.push(o); }
                None => out.push('\\'),
            }
        } else {
            out.push(c);
        }
    }
    out
}

fn esc(s: &str) -> String {
    let mut out = String::new();
    for c in s.chars() {
        match c {
            '\t' => out.push_str("\\t"),
            '\n' => out.push_str("\\n"),
            '\r' => out.push_str("\\r"),
            '\\' => out.push_str("\\\\"),
            c => out.push(c),
        }
    }
    out
}

fn variant<E: std::fmt::Debug>(e: &E) -> String {
    let d = format!("{:?}", e);
    d.split(|c: char| c == '(' || c == ' ' || c == '{').next().unwrap_or("").to_string()
}

fn entries(v: &[MatchEntry], out: &mut String) {
    for e in v {
        match e {
            MatchEntry::String(s) => {
                out.push_str("S<");
                out.push_str(s);
                out.push('>');
            }
            MatchEntry::Group { nr, value } => {
                out.push_str(&format!("G{}<", nr));
                entries(value, out);
                out.push('>');
            }
        }
    }
}

fn run(dialect: &str, flags: &str, pattern: &str, input: &str, repl: &str) -> Vec<(&'static str, String)> {
    let mut out = Vec::new();
    let re = if dialect == "xsd" { Regex::xsd(pattern, flags) } else { Regex::xpath(pattern, flags) };
    let re = match re {
        Err(e) => {
            out.push(("compile", format!("ERR:{}", variant(&e))));
            return out;
        }
        Ok(re) => re,
    };
    out.push(("compile", "OK".to_string()));
    out.push(("is_match", re.is_match(input).to_string()));
    match re.replace_all(input, repl) {
        Ok(s) => out.push(("replace", format!("OK:{}", s))),
        Err(e) => out.push(("replace", format!("ERR:{}", variant(&e)))),
    }
    let n = input.chars().count();
    match re.tokenize(input) {
        Ok(it) => {
            let mut s = String::from("OK:");
            let mut k = 0;
            for t in it {
                if k > n + 2 { s.push_str("\u{1e}MORE"); break; }
                if k > 0 { s.push('\u{1f}'); }
                s.push_str(&t);
                k += 1;
            }
            out.push(("tokens", s));
        }
        Err(e) => out.push(("tokens", format!("ERR:{}", variant(&e)))),
    }
    match re.analyze(input) {
        Ok(it) => {
            let mut s = String::from("OK:");
            let mut k = 0;
            for e in it {
                if k > 2 * n + 3 { s.push_str("\u{1e}MORE"); break; }
                match e {
                    AnalyzeEntry::Match(v) => { s.push_str("M<"); entries(&v, &mut s); s.push('>'); }
                    AnalyzeEntry::NonMatch(t) => { s.push_str("N<"); s.push_str(&t); s.push('>'); }
                }
                k += 1;
            }
            out.push(("analyze", s));
        }
        Err(e) => out.push(("analyze", format!("ERR:{}", variant(&e)))),
    }
    out
}

fn main() {
    let limit_ms: u64 = std::env::args().nth(1).and_then(|s| s.parse().ok()).unwrap_or(3000);
    let stdin = io::stdin();
    let stdout = io::stdout();
    for line in stdin.lock().lines() {
        let line = match line { Ok(l) => l, Err(_) => break };
        let f: Vec<String> = line.split('\t').map(unesc).collect();
        if f.len() < 6 { continue; }
        let id = f[0].clone();
        let (tx, rx) = mpsc::channel();
        let g = f.clone();
        thread::spawn(move || {
            let r = std::panic::catch_unwind(|| run(&g[1], &g[2], &g[3], &g[4], &g[5]));
            let _ = tx.send(r);
        });
        let mut o = stdout.lock();
        match rx.recv_timeout(Duration::from_millis(limit_ms)) {
            Ok(Ok(res)) => {
                for (op, r) in res { let _ = writeln!(o, "{}\t{}\t{}", id, op, esc(&r)); }
                let _ = writeln!(o, "{}\tdone", id);
            }
            Ok(Err(_)) => { let _ = writeln!(o, "{}\tPANIC", id); let _ = writeln!(o, "{}\tdone", id); }
            Err(_) => { let _ = writeln!(o, "{}\tTIMEOUT", id); let _ = o.flush(); std::process::exit(3); }
        }
        let _ = o.flush();
    }
}
