#!/bin/bash
# Offline setup: nothing to build (the framework is Python + the pre-installed verus / kani).
set -e
cd "$(dirname "$0")"
python3 -m py_compile vlib/*.py
command -v verus >/dev/null
mkdir -p build evidence replays
echo setup-ok
